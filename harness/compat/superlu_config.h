/* fallback copy of the CMake-generated default configuration: found only when <repo>/SRC/superlu_config.h (git-ignored, generated) is absent, e.g. in a fresh git worktree */

#ifndef SUPERLU_CONFIG_H
#define SUPERLU_CONFIG_H

/* Enable metis */
/* #undef HAVE_METIS */

/* Enable colamd */
/* #undef HAVE_COLAMD */

/* enable 64bit index mode */
/* #undef XSDK_INDEX_SIZE */

/* Integer type for indexing sparse matrix meta structure */
#if defined(XSDK_INDEX_SIZE) && (XSDK_INDEX_SIZE == 64)
#include <stdint.h>
#define _LONGINT 1
typedef int64_t int_t;
#else
typedef int int_t; /* default */
#endif

#endif /* SUPERLU_CONFIG_H */

