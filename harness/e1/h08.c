/* h08.c — C08 allocator half: ?LUMemInit / ?LUMemXpand / ?LUWorkFree with a caller workspace of EVERY length lwork in [0, LMAX].
 * Everything the allocator hands out must lie inside [work, work+lwork), regions pairwise disjoint, bookkeeping consistent; shortage => return > n.
 * -DSTEPS=k : number of ?LUMemXpand calls after a successful init (0..2);  -DMODEL_SYSTEM : library allocation with failing USER_MALLOC instead */
#include "e1common.h"
#ifndef LMAX
#define LMAX 640
#endif
#ifndef STEPS
#define STEPS 0
#endif
static int t_panel, t_relax, t_maxsuper, t_rowblk, t_colblk, t_fill;
int sp_ienv(int i) { switch (i) { case 1: return t_panel; case 2: return t_relax; case 3: return t_maxsuper; case 4: return t_rowblk; case 5: return t_colblk; case 6: return t_fill; case 7: return t_maxsuper; } return 0; }
int input_error(char *s, int *i) { return 0; }
void superlu_abort_and_exit(const char *msg) { __CPROVER_assume(0); exit(3); }

#ifdef STUB_COPIES   /* pointer bookkeeping only: content moves are checked by C07's harness; memory.c is not linked in this variant */
void *superlu_malloc(size_t n) { return malloc(n); }
void superlu_free(void *p) { free(p); }
void user_bcopy(char *a, char *b, int n) { }
#if defined(XSDK_INDEX_SIZE) && (XSDK_INDEX_SIZE == 64)
void copy_mem_int(int n, void *a, void *b) { }   /* prototype as declared in ?memory.c */
#else
void copy_mem_int(int_t n, void *a, void *b) { }
#endif
int *int32Malloc(int n) { return (int *)malloc(n * sizeof(int)); }
int *int32Calloc(int n) { return (int *)calloc(n, sizeof(int)); }
int_t *intMalloc(int_t n) { return (int_t *)malloc(n * sizeof(int_t)); }
int_t *intCalloc(int_t n) { return (int_t *)calloc(n, sizeof(int_t)); }
#endif
static char *W, *E;
static int inside(const void *p, long bytes) { const char *c = (const char *)p; return p != 0 && __CPROVER_same_object(c, W) && c >= W && bytes >= 0 && c + bytes <= E; }
static int disjoint(const void *p, long a, const void *q, long b) { const char *x = p, *y = q; return x + a <= y || y + b <= x; }

int main(void) {
  int n = nondet_int(), annz = nondet_int(); ASSUME(n >= 1 && n <= 2 && annz >= 1 && annz <= n * n); int m = n;
  t_panel = nondet_int(); t_relax = 1; t_maxsuper = nondet_int(); t_rowblk = nondet_int(); t_colblk = 1; t_fill = nondet_int();
  ASSUME(t_panel >= 1 && t_panel <= 2 && t_maxsuper >= 1 && t_maxsuper <= 2 && t_rowblk >= 1 && t_rowblk <= 2 && t_fill >= 1 && t_fill <= 3);
  int_t lwork = nondet_int(); ASSUME(lwork >= 1 && lwork <= LMAX);
  int off = nondet_bool() ? 4 : 0;                      /* 8- or 4-byte aligned workspace */
  char *base = malloc((size_t)lwork + 8); ASSUME(base != 0); W = base + off; E = W + lwork;
  SuperMatrix L, U; GlobalLU_t Glu; int *iwork = 0; elem_t *dwork = 0;
  int_t info = F(LUMemInit)(DOFACT, W, lwork, m, n, annz, t_panel, (double)t_fill, &L, &U, &Glu, &iwork, &dwork);
  if (info != 0) { __CPROVER_assert(info > n, "C08: shortage is reported as info > n"); WITNESS_POINT();
#ifdef E1_NATIVE
    return e1_failed;
#else
    return 0;
#endif
  }
  /* success: every region inside the caller's workspace, pairwise disjoint, bookkeeping consistent */
  long iw = sizeof(int), lw = sizeof(int_t), dw = sizeof(elem_t);
  const void *P[11]; long B[11]; int k = 0;
  P[k] = Glu.xsup; B[k++] = (n + 1) * iw; P[k] = Glu.supno; B[k++] = (n + 1) * iw; P[k] = Glu.xlsub; B[k++] = (n + 1) * lw; P[k] = Glu.xlusup; B[k++] = (n + 1) * lw; P[k] = Glu.xusub; B[k++] = (n + 1) * lw;
  P[k] = Glu.lusup; B[k++] = Glu.nzlumax * dw; P[k] = Glu.ucol; B[k++] = Glu.nzumax * dw; P[k] = Glu.lsub; B[k++] = Glu.nzlmax * lw; P[k] = Glu.usub; B[k++] = Glu.nzumax * lw;
  int maxsuper = t_maxsuper, rowblk = t_rowblk; long isize = (2 * t_panel + 2 + NO_MARKER) * m * iw, dsize = (m * t_panel + NUM_TEMPV(m, t_panel, maxsuper, rowblk)) * dw;
  P[k] = iwork; B[k++] = isize; P[k] = dwork; B[k++] = dsize;
  __CPROVER_assert(Glu.nzlumax >= annz && Glu.nzumax >= 1 && Glu.nzlmax >= 1, "C08: granted lengths are positive and cover the matrix");
  for (int i = 0; i < 11; i++) __CPROVER_assert(inside(P[i], B[i]), "C08: every array handed out lies inside [work, work+lwork)");
  for (int i = 0; i < 11; i++) for (int j = i + 1; j < 11; j++) __CPROVER_assert(disjoint(P[i], B[i], P[j], B[j]), "C08: arrays handed out are pairwise disjoint");
  __CPROVER_assert(sizeof(real_t) < 8 || (__CPROVER_POINTER_OFFSET(Glu.lusup) % 8 == 0 && __CPROVER_POINTER_OFFSET(Glu.ucol) % 8 == 0 && __CPROVER_POINTER_OFFSET(dwork) % 8 == 0), "C08: value arrays are 8-byte aligned");
  __CPROVER_assert(Glu.stack.used >= 0 && Glu.stack.top1 >= 0 && Glu.stack.top1 <= Glu.stack.top2 && Glu.stack.top2 <= Glu.stack.size && Glu.stack.size <= lwork && Glu.stack.used == Glu.stack.top1 + (Glu.stack.size - Glu.stack.top2), "C08: stack bookkeeping consistent");
#if STEPS > 0
  for (int s = 0; s < STEPS; s++) { int ty = nondet_int(); ASSUME(ty >= 0 && ty <= 3); int_t *ml = ty == LUSUP ? &Glu.nzlumax : ty == LSUB ? &Glu.nzlmax : &Glu.nzumax; int_t maxlen = *ml, old_len = *ml; int_t next = nondet_int(); ASSUME(next >= 0 && next <= maxlen);
    int_t r = F(LUMemXpand)(0, next, (MemType)ty, &maxlen, &Glu);
    if (r != 0) { __CPROVER_assert(r > n, "C08: failed growth is reported as > n"); break; }
    __CPROVER_assert(maxlen > 0, "C08: grown length positive");
    if (ty != USUB) __CPROVER_assert(maxlen > *ml || *ml > old_len, "C08: a successful growth request really grows the array (callers retry until it fits, so no growth means a hang)");
    const void *Q[4] = {Glu.lusup, Glu.ucol, Glu.lsub, Glu.usub}; long QB[4] = {Glu.nzlumax * dw, Glu.nzumax * dw, Glu.nzlmax * lw, Glu.nzumax * lw};
    for (int i = 0; i < 4; i++) __CPROVER_assert(inside(Q[i], QB[i]), "C08: after growth every factor array lies inside the workspace");
    for (int i = 0; i < 4; i++) for (int j = i + 1; j < 4; j++) __CPROVER_assert(disjoint(Q[i], QB[i], Q[j], QB[j]), "C08: after growth factor arrays are disjoint");
    for (int i = 0; i < 4; i++) { __CPROVER_assert(disjoint(Q[i], QB[i], iwork, isize) && disjoint(Q[i], QB[i], dwork, dsize), "C08: after growth factor arrays do not reach the work arrays at the tail");
      for (int j = 0; j < 5; j++) __CPROVER_assert(disjoint(Q[i], QB[i], P[j], B[j]), "C08: after growth factor arrays do not overlap the pointer arrays"); }
    __CPROVER_assert(Glu.stack.used >= 0 && Glu.stack.top1 <= Glu.stack.top2 && Glu.stack.used == Glu.stack.top1 + (Glu.stack.size - Glu.stack.top2), "C08: stack bookkeeping consistent after growth");
  }
#endif
  F(LUWorkFree)(iwork, dwork, &Glu);
  __CPROVER_assert(Glu.stack.top2 == Glu.stack.size && Glu.stack.used == Glu.stack.top1, "C08: work arrays released");
  WITNESS_POINT();
#ifdef E1_NATIVE
  return e1_failed;
#else
  return 0;
#endif
}
