/* h10.c — C10: sp_preorder / sp_coletree / TreePostorder for EVERY m x n pattern (m,n <= NB) and EVERY input permutation.
 * etree_out must be the definitional column elimination tree of A*Pc_out, parents above children, subtrees contiguous (unless SymmetricMode),
 * Pc_out = post o Pc_in with post a tree isomorphism from etree(A*Pc_in), and the permuted view must list exactly A's columns. */
#include "e1common.h"
#ifndef NB
#define NB 3
#endif
int sp_ienv(int i) { return 1; }
int input_error(char *s, int *i) { return 0; }
void superlu_abort_and_exit(const char *msg) { __CPROVER_assume(0); exit(3); }

/* definitional column etree of the m x n boolean matrix B (column j of B = column cmap[j] of A): parent of j in the Cholesky factor of B'B */
static void def_etree(int m, int n, unsigned char Ab[NB][NB], const int *colof, int *parent) {
  unsigned char G[NB][NB];
  for (int i = 0; i < NB; i++) for (int j = 0; j < NB; j++) { unsigned char g = 0; if (i < n && j < n) for (int r = 0; r < NB; r++) if (r < m && Ab[r][colof[i]] && Ab[r][colof[j]]) g = 1; G[i][j] = g; }
  for (int k = 0; k < NB; k++) if (k < n) { int p = n; for (int i = NB - 1; i > k; i--) if (i < n && G[i][k]) p = i; parent[k] = p;
      for (int i = k + 1; i < NB; i++) for (int j = k + 1; j < NB; j++) if (i < n && j < n && G[i][k] && G[j][k]) G[i][j] = 1; }
}

int main(void) {
#if defined(FIX_M) && defined(FIX_N)
  const int m = FIX_M, n = FIX_N;     /* dimensions are enumerated by the driver (symbolic sizes make every malloc'ed array symbolic-sized) */
#else
  int m = nondet_int(), n = nondet_int(); ASSUME(m >= 1 && m <= NB && n >= 1 && n <= NB);
#endif
  unsigned char Ab[NB][NB]; int_t colptr[NB + 1], rowind[NB * NB]; elem_t val[NB * NB]; int_t k = 0;
  for (int j = 0; j < NB; j++) { if (j < n) colptr[j] = k; for (int i = 0; i < NB; i++) { Ab[i][j] = 0; if (i < m && j < n && nondet_bool()) { Ab[i][j] = 1; rowind[k] = i; k++; } } }
  colptr[n] = k;
  SuperMatrix A, AC; NCformat Ast; Ast.nnz = k; Ast.nzval = val; Ast.rowind = rowind; Ast.colptr = colptr; A.Stype = SLU_NC; A.Dtype = SLU_DT; A.Mtype = SLU_GE; A.nrow = m; A.ncol = n; A.Store = &Ast;
  int perm_c[NB], pin[NB], etree[NB + 1], seen[NB];
  for (int j = 0; j < NB; j++) seen[j] = 0;
  for (int j = 0; j < NB; j++) if (j < n) { int p = nondet_int(); ASSUME(p >= 0 && p < n && !seen[p]); seen[p] = 1; perm_c[j] = pin[j] = p; }
#ifdef FIX_PERM0
  ASSUME(perm_c[0] == FIX_PERM0);
#endif
  superlu_options_t opt; set_default_options(&opt); opt.Fact = DOFACT; int symm = nondet_bool(); opt.SymmetricMode = symm ? YES : NO;
  sp_preorder(&opt, &A, perm_c, etree, &AC);
  /* (1) bijection */
  for (int j = 0; j < NB; j++) seen[j] = 0;
  for (int j = 0; j < NB; j++) if (j < n) { __CPROVER_assert(perm_c[j] >= 0 && perm_c[j] < n && !seen[perm_c[j]], "C10: output column permutation is a bijection"); if (perm_c[j] >= 0 && perm_c[j] < n) seen[perm_c[j]] = 1; }
  /* (2) permuted view lists exactly A's columns, sharing A's arrays */
  NCPformat *Ac = (NCPformat *)AC.Store;
  __CPROVER_assert(AC.Stype == SLU_NCP && AC.nrow == m && AC.ncol == n && Ac->nnz == k && Ac->nzval == (void *)val && Ac->rowind == rowind, "C10: permuted view header");
  for (int j = 0; j < NB; j++) if (j < n) __CPROVER_assert(Ac->colbeg[perm_c[j]] == colptr[j] && Ac->colend[perm_c[j]] == colptr[j + 1], "C10: permuted view lists exactly A's columns");
  /* (3) etree is the column elimination tree of A*Pc_out */
  int inv_out[NB], inv_in[NB], want[NB + 1], tin[NB + 1];
  for (int j = 0; j < NB; j++) if (j < n) { inv_out[perm_c[j]] = j; inv_in[pin[j]] = j; }
  def_etree(m, n, Ab, inv_out, want); def_etree(m, n, Ab, inv_in, tin);
  for (int j = 0; j < NB; j++) if (j < n) { __CPROVER_assert(etree[j] == want[j], "C10: etree is exactly the column elimination tree of the permuted matrix"); __CPROVER_assert(etree[j] > j && etree[j] <= n, "C10: every parent index exceeds its children's"); }
  /* (4) the caller's ordering is respected up to a postorder of its own tree: post = Pc_out o Pc_in^-1 maps etree(A*Pc_in) onto etree_out */
  int post[NB + 1]; for (int q = 0; q < NB; q++) if (q < n) post[q] = perm_c[inv_in[q]]; post[n] = n;
  for (int q = 0; q < NB; q++) if (q < n) __CPROVER_assert(etree[post[q]] == post[tin[q]], "C10: output order is the caller's order composed with a tree isomorphism (postorder)");
  if (symm) { for (int j = 0; j < NB; j++) if (j < n) __CPROVER_assert(perm_c[j] == pin[j], "C10: symmetric mode leaves the caller's ordering alone"); }
  else { /* postordered: the descendants of every node j are exactly the consecutive indices j - size(j) + 1 .. j */
    int size[NB + 1]; for (int j = 0; j <= NB; j++) size[j] = 1;
    for (int j = 0; j < NB; j++) if (j < n && etree[j] >= 0 && etree[j] < n) size[etree[j]] += size[j];
    for (int j = 0; j < NB; j++) if (j < n) for (int c = 0; c < NB; c++) if (c < j) { int anc = c; for (int s = 0; s < NB; s++) if (anc < j && anc >= 0 && anc < n) anc = etree[anc]; int isdesc = (anc == j);
          __CPROVER_assert(isdesc == (c >= j - size[j] + 1), "C10: each subtree occupies consecutive indices (postorder)"); } }
  WITNESS_POINT();
#ifdef E1_NATIVE
  return e1_failed;
#else
  return 0;
#endif
}
