/* h18.c — C18: single-argument corruption of an otherwise valid call is rejected with info = -(position), input_error called once with
 * that position, nothing modified, no worker routine entered (workers have assert-false bodies generated at goto level), no allocation made.
 * -DROUTINE=<n>: 1 ?gssv 2 ?gssvx 3 ?gsisx 4 ?gstrs 5 ?gsrfs 6 ?gscon 7 ?gsequ 8 sp_?trsv 9 sp_?gemv */
#include "e1common.h"
#define NB 2          /* dimension bound */
int ie_calls = 0, ie_arg = 0;
int input_error(char *srname, int *info) { ie_calls++; ie_arg = *info; return 0; }
int sp_ienv(int i) { return 1; }

static SuperMatrix A, L, U, B, X; static NCformat Ast, Ust; static SCformat Lst; static DNformat Bst, Xst;
static elem_t bval[(NB + 1) * NB], xval[(NB + 1) * NB], bval0[(NB + 1) * NB], xval0[(NB + 1) * NB];
static int perm_c[NB], perm_r[NB], etree[NB], pc0[NB], pr0[NB], et0[NB]; static real_t R[NB], C[NB], R0[NB], C0[NB];
static SuperMatrix A0, L0, U0, B0, X0; static NCformat Ast0, Ust0; static SCformat Lst0; static DNformat Bst0, Xst0;

static int bad_enum(int lo, int hi) { int v = nondet_int(); ASSUME(v < lo || v > hi); return v; }
static void valid_square(SuperMatrix *M, int n, Stype_t st, Mtype_t mt, void *store) { M->nrow = M->ncol = n; M->Stype = st; M->Dtype = SLU_DT; M->Mtype = mt; M->Store = store; }
static void valid_dense(SuperMatrix *M, DNformat *D, int n, int nrhs, elem_t *v) { int lda = nondet_int(); ASSUME(lda >= n && lda <= NB + 1); M->nrow = n; M->ncol = nrhs; M->Stype = SLU_DN; M->Dtype = SLU_DT; M->Mtype = SLU_GE; M->Store = D; D->lda = lda; D->nzval = v; }
/* corrupt a square sparse argument: returns after making exactly one documented precondition false */
static void corrupt_square(SuperMatrix *M, int allow_nr, Stype_t st) { int k = nondet_int(); ASSUME(k >= 0 && k <= 4);
  if (k == 0) { int d = nondet_int(); ASSUME(d != M->ncol && d >= -2 && d <= NB + 1); M->nrow = d; }
  else if (k == 1) { int d = nondet_int(); ASSUME(d < 0 && d >= -3); M->nrow = M->ncol = d; }
  else if (k == 2) { int s = nondet_int(); ASSUME(s >= 0 && s <= 8 && s != (int)st && !(allow_nr && (s == SLU_NC || s == SLU_NR))); M->Stype = (Stype_t)s; }
  else if (k == 3) { int s = nondet_int(); ASSUME(s >= 0 && s <= 3 && s != (int)SLU_DT); M->Dtype = (Dtype_t)s; }
  else { int s = nondet_int(); ASSUME(s >= 0 && s <= 8 && s != (int)M->Mtype); M->Mtype = (Mtype_t)s; } }
static void corrupt_dense(SuperMatrix *M, DNformat *D, int n, int allow_neg_ncol, int need_pos_ncol) { int k = nondet_int(); ASSUME(k >= 0 && k <= 4);
  if (k == 0 && allow_neg_ncol) { int d = nondet_int(); ASSUME(d < 0 && d >= -3); M->ncol = d; }
  else { if (need_pos_ncol) ASSUME(M->ncol > 0);
    if (k <= 1) { int d = nondet_int(); ASSUME(d < n && d >= -2); ASSUME(n > 0); D->lda = d;
      if (k == 1) { int r = nondet_int(); ASSUME(r >= 0 && r <= NB + 1); M->nrow = r; } }   /* a leading dimension below the order of the system is illegal whatever row count the dense matrix declares */
    else if (k == 2) { int s = nondet_int(); ASSUME(s >= 0 && s <= 8 && s != SLU_DN); M->Stype = (Stype_t)s; }
    else if (k == 3) { int s = nondet_int(); ASSUME(s >= 0 && s <= 3 && s != (int)SLU_DT); M->Dtype = (Dtype_t)s; }
    else { int s = nondet_int(); ASSUME(s >= 0 && s <= 8 && s != SLU_GE); M->Mtype = (Mtype_t)s; } } }
static void snapshot(void) { A0 = A; L0 = L; U0 = U; B0 = B; X0 = X; Ast0 = Ast; Ust0 = Ust; Lst0 = Lst; Bst0 = Bst; Xst0 = Xst;
  memcpy(bval0, bval, sizeof bval); memcpy(xval0, xval, sizeof xval); memcpy(pc0, perm_c, sizeof pc0); memcpy(pr0, perm_r, sizeof pr0); memcpy(et0, etree, sizeof et0); memcpy(R0, R, sizeof R0); memcpy(C0, C, sizeof C0); }
static int sm_eq(SuperMatrix *a, SuperMatrix *b) { return a->Stype == b->Stype && a->Dtype == b->Dtype && a->Mtype == b->Mtype && a->nrow == b->nrow && a->ncol == b->ncol && a->Store == b->Store; }
static int same_bytes(const void *a, const void *b, unsigned n) { const unsigned char *p = a, *q = b; int ok = 1; for (unsigned i = 0; i < n; i++) ok &= (p[i] == q[i]); return ok; }
static void check_unmodified(void) {
  __CPROVER_assert(sm_eq(&A, &A0) && sm_eq(&L, &L0) && sm_eq(&U, &U0) && sm_eq(&B, &B0) && sm_eq(&X, &X0), "C18: SuperMatrix headers unmodified");
  __CPROVER_assert(Ast.nnz == Ast0.nnz && Ast.nzval == Ast0.nzval && Ast.rowind == Ast0.rowind && Ast.colptr == Ast0.colptr && Ust.nnz == Ust0.nnz && Ust.nzval == Ust0.nzval && Lst.nnz == Lst0.nnz && Lst.nsuper == Lst0.nsuper && Lst.nzval == Lst0.nzval
                   && Bst.lda == Bst0.lda && Bst.nzval == Bst0.nzval && Xst.lda == Xst0.lda && Xst.nzval == Xst0.nzval, "C18: stores unmodified");
  __CPROVER_assert(same_bytes(bval, bval0, sizeof bval) && same_bytes(xval, xval0, sizeof xval), "C18: B and X values unmodified");
  __CPROVER_assert(perm_c[0] == pc0[0] && perm_c[1] == pc0[1] && perm_r[0] == pr0[0] && perm_r[1] == pr0[1] && etree[0] == et0[0] && etree[1] == et0[1], "C18: permutations and etree unmodified");
  __CPROVER_assert(same_bytes(R, R0, sizeof R0) && same_bytes(C, C0, sizeof C0), "C18: scale factors unmodified"); }
static void expect(int_t info, int pos, int positive_style) {
  if (!positive_style) __CPROVER_assert(info == -pos, "C18: info == -(position of the offending argument)");
  __CPROVER_assert(ie_calls == 1 && ie_arg == pos, "C18: input_error called exactly once with the position");
  check_unmodified(); WITNESS_POINT(); }
static real_t pos_real(void) { real_t v =
#if defined(PREC_D) || defined(PREC_Z)
      nondet_double();
#else
      nondet_float();
#endif
  ASSUME(v > 0 && v < 1e30f); return v; }

int main(void) {
  int n = nondet_int(), nrhs = nondet_int(); ASSUME(n >= 0 && n <= NB && nrhs >= 0 && nrhs <= NB);
  int allow_nr = (ROUTINE == 1 || ROUTINE == 2 || ROUTINE == 3); int st = SLU_NC; if (allow_nr && nondet_bool()) st = SLU_NR;
  valid_square(&A, n, (Stype_t)st, SLU_GE, &Ast); valid_square(&L, n, SLU_SC, SLU_TRLU, &Lst); valid_square(&U, n, SLU_NC, SLU_TRU, &Ust);
  valid_dense(&B, &Bst, n, nrhs, bval); valid_dense(&X, &Xst, n, nrhs, xval);
  R[0] = pos_real(); R[1] = pos_real(); C[0] = pos_real(); C[1] = pos_real(); perm_c[0] = perm_r[0] = 0; perm_c[1] = perm_r[1] = 1; etree[0] = etree[1] = NB;
  superlu_options_t opt; set_default_options(&opt);
  { int f = nondet_int(); ASSUME(f == DOFACT || f == SamePattern || f == SamePattern_SameRowPerm || f == FACTORED); opt.Fact = (fact_t)f; int t = nondet_int(); ASSUME(t == NOTRANS || t == TRANS || t == CONJ); opt.Trans = (trans_t)t; opt.Equil = nondet_bool() ? YES : NO; }
  char equed = nondet_char(); ASSUME(equed == 'N' || equed == 'R' || equed == 'C' || equed == 'B');
  int_t lwork = nondet_int(); ASSUME(lwork >= -1 && lwork <= 64);
  SuperLUStat_t stat; GlobalLU_t Glu; mem_usage_t mu; real_t rpg, rcond, ferr[NB], berr[NB]; int_t info = 12345; int pos = 0; int k = nondet_int();
  trans_t trans = opt.Trans;
#if ROUTINE == 1      /* ?gssv(options, A, perm_c, perm_r, L, U, B, stat, info): 1 options.Fact != DOFACT, 2 A, 7 B */
  opt.Fact = DOFACT; ASSUME(k >= 0 && k <= 2);
  if (k == 0) { int f = nondet_int(); ASSUME(f != DOFACT); opt.Fact = (fact_t)f; pos = 1; } else if (k == 1) { corrupt_square(&A, 1, (Stype_t)st); pos = 2; } else { corrupt_dense(&B, &Bst, n, 1, 0); pos = 7; }
  snapshot(); F(gssv)(&opt, &A, perm_c, perm_r, &L, &U, &B, &stat, &info); expect(info, pos, 0);
#elif ROUTINE == 2 || ROUTINE == 3   /* expert drivers: 1 options, 2 A, 6 equed, 7 R, 8 C, 12 lwork, 13 B, 14 X */
  ASSUME(k >= 0 && k <= 7);
  if (k == 0) { int w = nondet_int(); ASSUME(w >= 0 && w <= 2); if (w == 0) opt.Fact = (fact_t)bad_enum(0, 3); else if (w == 1) opt.Trans = (trans_t)bad_enum(0, 2); else opt.Equil = (yes_no_t)bad_enum(0, 1); pos = 1; }
  else if (k == 1) { corrupt_square(&A, 1, (Stype_t)st); pos = 2; }
  else if (k == 2) { opt.Fact = FACTORED; equed = nondet_char(); ASSUME(equed != 'N' && equed != 'R' && equed != 'C' && equed != 'B'); pos = 6; }
  else if (k == 3) { opt.Fact = FACTORED; ASSUME(equed == 'R' || equed == 'B'); ASSUME(n > 0); int j = nondet_int(); ASSUME(j >= 0 && j < n); real_t v = -pos_real(); if (nondet_bool()) v = 0; R[j] = v; pos = 7; }
  else if (k == 4) { opt.Fact = FACTORED; ASSUME(equed == 'C' || equed == 'B'); ASSUME(n > 0); int j = nondet_int(); ASSUME(j >= 0 && j < n); real_t v = -pos_real(); if (nondet_bool()) v = 0; C[j] = v; pos = 8; }
  else if (k == 5) { lwork = nondet_int(); ASSUME(lwork < -1); pos = 12; }
  else if (k == 6) { corrupt_dense(&B, &Bst, n, 1, ROUTINE == 2); pos = 13; }
  else { int w = nondet_bool(); if (w && nrhs > 0) { int d = nondet_int(); ASSUME(d > 0 && d <= NB + 1 && d != nrhs); X.ncol = d; ASSUME(Xst.lda >= n); } else corrupt_dense(&X, &Xst, n, 1, ROUTINE == 2); pos = 14; }
  snapshot();
#if ROUTINE == 2
  F(gssvx)(&opt, &A, perm_c, perm_r, etree, &equed, R, C, &L, &U, NULL, lwork, &B, &X, &rpg, &rcond, ferr, berr, &Glu, &mu, &stat, &info);
#else
  F(gsisx)(&opt, &A, perm_c, perm_r, etree, &equed, R, C, &L, &U, NULL, lwork, &B, &X, &rpg, &rcond, &Glu, &mu, &stat, &info);
#endif
  expect(info, pos, 0);
#elif ROUTINE == 4    /* ?gstrs(trans, L, U, perm_c, perm_r, B, stat, info): 1 trans, 2 L, 3 U, 6 B */
  ASSUME(k >= 0 && k <= 3);
  if (k == 0) { trans = (trans_t)bad_enum(0, 2); pos = 1; } else if (k == 1) { corrupt_square(&L, 0, SLU_SC); pos = 2; } else if (k == 2) { corrupt_square(&U, 0, SLU_NC); pos = 3; } else { corrupt_dense(&B, &Bst, n, 0, 0); pos = 6; }
  snapshot(); int info4 = 12345; F(gstrs)(trans, &L, &U, perm_c, perm_r, &B, &stat, &info4); expect(info4, pos, 0);
#elif ROUTINE == 5    /* ?gsrfs(trans, A, L, U, perm_c, perm_r, equed, R, C, B, X, ferr, berr, stat, info): 1 trans 2 A 3 L 4 U 10 B 11 X */
  ASSUME(k >= 0 && k <= 5);
  if (k == 0) { trans = (trans_t)bad_enum(0, 2); pos = 1; } else if (k == 1) { corrupt_square(&A, 0, SLU_NC); pos = 2; } else if (k == 2) { corrupt_square(&L, 0, SLU_SC); pos = 3; } else if (k == 3) { corrupt_square(&U, 0, SLU_NC); pos = 4; }
  else if (k == 4) { corrupt_dense(&B, &Bst, n, 0, 0); pos = 10; } else { corrupt_dense(&X, &Xst, n, 0, 0); pos = 11; }
  snapshot(); int info5 = 12345; F(gsrfs)(trans, &A, &L, &U, perm_c, perm_r, &equed, R, C, &B, &X, ferr, berr, &stat, &info5); expect(info5, pos, 0);
#elif ROUTINE == 6    /* ?gscon(norm, L, U, anorm, rcond, stat, info): 1 norm 2 L 3 U */
  ASSUME(k >= 0 && k <= 2); char norm[2] = {'1', 0}; { int w = nondet_int(); ASSUME(w >= 0 && w <= 2); norm[0] = w == 0 ? '1' : w == 1 ? 'O' : 'I'; }
  if (k == 0) { norm[0] = nondet_char(); ASSUME(norm[0] != '1' && norm[0] != 'O' && norm[0] != 'I'); pos = 1; } else if (k == 1) { corrupt_square(&L, 0, SLU_SC); pos = 2; } else { corrupt_square(&U, 0, SLU_NC); pos = 3; }
  snapshot(); int info6 = 12345; F(gscon)(norm, &L, &U, (real_t)1, &rcond, &stat, &info6); expect(info6, pos, 0);
#elif ROUTINE == 7    /* ?gsequ(A, r, c, rowcnd, colcnd, amax, info): 1 A (dims may differ: m x n) */
  { int kk = nondet_int(); ASSUME(kk >= 0 && kk <= 4); if (kk == 0) { int d = nondet_int(); ASSUME(d < 0 && d >= -3); A.nrow = d; } else if (kk == 1) { int d = nondet_int(); ASSUME(d < 0 && d >= -3); A.ncol = d; }
    else if (kk == 2) { int s = nondet_int(); ASSUME(s >= 0 && s <= 8 && s != SLU_NC); A.Stype = (Stype_t)s; } else if (kk == 3) { int s = nondet_int(); ASSUME(s >= 0 && s <= 3 && s != (int)SLU_DT); A.Dtype = (Dtype_t)s; } else { int s = nondet_int(); ASSUME(s >= 0 && s <= 8 && s != SLU_GE); A.Mtype = (Mtype_t)s; } pos = 1; }
  snapshot(); real_t rowcnd, colcnd, amax; int info7 = 12345; F(gsequ)(&A, R, C, &rowcnd, &colcnd, &amax, &info7); expect(info7, pos, 0);
#elif ROUTINE == 8    /* sp_?trsv(uplo, trans, diag, L, U, x, stat, info): 1 uplo 2 trans 3 diag 4 L 5 U */
  ASSUME(k >= 0 && k <= 4); char uplo[2] = {nondet_bool() ? 'L' : 'U', 0}, tr[2] = {'N', 0}, diag[2] = {nondet_bool() ? 'U' : 'N', 0}; { int w = nondet_int(); ASSUME(w >= 0 && w <= 2); tr[0] = w == 0 ? 'N' : w == 1 ? 'T' : 'C'; }
  if (k == 0) { uplo[0] = nondet_char(); ASSUME(uplo[0] != 'L' && uplo[0] != 'U'); pos = 1; } else if (k == 1) { tr[0] = nondet_char(); ASSUME(tr[0] != 'N' && tr[0] != 'T' && tr[0] != 'C'); pos = 2; }
  else if (k == 2) { diag[0] = nondet_char(); ASSUME(diag[0] != 'U' && diag[0] != 'N'); pos = 3; }
  else if (k == 3) { if (nondet_bool()) { int d = nondet_int(); ASSUME(d != L.ncol && d >= -2 && d <= NB + 1); L.nrow = d; } else { int d = nondet_int(); ASSUME(d < 0 && d >= -3); L.nrow = L.ncol = d; } pos = 4; }
  else { if (nondet_bool()) { int d = nondet_int(); ASSUME(d != U.ncol && d >= -2 && d <= NB + 1); U.nrow = d; } else { int d = nondet_int(); ASSUME(d < 0 && d >= -3); U.nrow = U.ncol = d; } pos = 5; }
  snapshot(); int info8 = 12345; SPF(trsv)(uplo, tr, diag, &L, &U, xval, &stat, &info8); expect(info8, pos, 0);
#elif ROUTINE == 9    /* sp_?gemv(trans, alpha, A, x, incx, beta, y, incy): 1 trans 3 A 5 incx 8 incy (reported through input_error only) */
  ASSUME(k >= 0 && k <= 3); char tr[2] = {'N', 0}; { int w = nondet_int(); ASSUME(w >= 0 && w <= 2); tr[0] = w == 0 ? 'N' : w == 1 ? 'T' : 'C'; } int incx = 1, incy = 1;
  if (k == 0) { tr[0] = nondet_char(); ASSUME(tr[0] != 'N' && tr[0] != 'T' && tr[0] != 'C' && tr[0] != 'n' && tr[0] != 't' && tr[0] != 'c'); pos = 1; }
  else if (k == 1) { if (nondet_bool()) { int d = nondet_int(); ASSUME(d < 0 && d >= -3); A.nrow = d; } else { int d = nondet_int(); ASSUME(d < 0 && d >= -3); A.ncol = d; } pos = 3; }
  else if (k == 2) { incx = 0; pos = 5; } else { incy = 0; pos = 8; }
  snapshot(); elem_t alpha, beta; memset(&alpha, 0, sizeof alpha); memset(&beta, 0, sizeof beta); SPF(gemv)(tr, alpha, &A, xval, incx, beta, bval, incy); expect(0, pos, 1);
#endif
  return 0;
}
