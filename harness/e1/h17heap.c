/* h17heap.c — C17: one inductive step of mc64's indexed binary heap (mc64dd_ / mc64ed_ / mc64fd_ of the real mc64ad.c), from an ARBITRARY valid heap state.
 * The Dijkstra search of mc64wd_ (job 5, IWAY = 2: min-heap on the distances D) and of mc64bd_ (IWAY = 1: max-heap) keeps its candidate rows in Q(1:QLEN) with the
 * position index L.  Representation invariant INV(q, l, d, qlen):  q(1..qlen) are distinct rows in 1..n, l(q(p)) = p, and d(q(p/2)) <= d(q(p)) (IWAY = 2; >= for 1).
 * Every operation is run once from a symbolic state satisfying INV with symbolic arguments; afterwards INV must hold again, the member set must be the old set
 * minus / plus the documented row, D untouched, and nothing outside q(1..qlen_max), l(1..n) written (CBMC bounds checks).  One step from any valid state covers
 * call histories of any length.  OP: 1 = insert (++qlen, l(i) = qlen, dd), 2 = decrease/increase-key of a member towards the root (dd), 3 = delete root (ed),
 * 4 = delete the member at an arbitrary position (fd). */
#include "e1common.h"
#ifndef NB
#define NB 7
#endif
#ifndef OP
#define OP 4
#endif
#ifndef IWAY
#define IWAY 2
#endif
int_t mc64dd_(int_t *, int_t *, int_t *, double *, int_t *, int_t *), mc64ed_(int_t *, int_t *, int_t *, double *, int_t *, int_t *), mc64fd_(int_t *, int_t *, int_t *, int_t *, double *, int_t *, int_t *);
void superlu_abort_and_exit(const char *msg) { __CPROVER_assume(0); exit(3); }
/* keys: the heap routines use D only through comparisons, so every total preorder of NB + 1 keys is realised by small integers (KEYS_SMALL, the default);
   -DKEYS_FULL makes them arbitrary non-NaN doubles (bit-precise compare, much slower) */
#ifdef KEYS_FULL
static double KEY(void) { double x = nondet_double(); ASSUME(x == x); return x; }
#else
static double KEY(void) { int k = nondet_int(); ASSUME(k >= 0 && k <= NB + 1); return (double)k; }
#endif
static int before(double a, double b) { return IWAY == 1 ? a >= b : a <= b; }   /* a may sit above b */

int main(void) {
  int_t n = NB, iway = IWAY, qlen = nondet_int();
  int_t q[NB + 1], l[NB + 1]; double d[NB + 1]; int_t q0[NB + 1], l0[NB + 1]; double d0[NB + 1]; int member0[NB + 1];
  ASSUME(qlen >= 0 && qlen <= NB);
  for (int i = 0; i <= NB; i++) { q[i] = nondet_int(); l[i] = nondet_int(); d[i] = KEY(); member0[i] = 0; }
  /* INV on the pre-state (positions beyond qlen and index entries of non-members are arbitrary) */
  for (int p = 1; p <= NB; p++) if (p <= qlen) { ASSUME(q[p] >= 1 && q[p] <= NB); ASSUME(l[q[p]] == p); if (p >= 2) ASSUME(before(d[q[p / 2]], d[q[p]])); }
  for (int p = 1; p <= NB; p++) if (p <= qlen) member0[q[p]] = 1;
  int_t qlen0 = qlen, gone = 0, added = 0;
#if OP == 1
  int_t i = nondet_int(); ASSUME(i >= 1 && i <= NB && !member0[i] && qlen < NB);
  ++qlen; l[i] = qlen; added = i;                                  /* as at the call sites in mc64wd_ / mc64bd_ */
#elif OP == 2
  int_t i = nondet_int(); ASSUME(i >= 1 && i <= NB && member0[i]);
  { double nv = KEY(); ASSUME(before(nv, d[i])); d[i] = nv; }  /* the key only ever moves towards the root before mc64dd_ is called */
#elif OP == 3
  ASSUME(qlen >= 1); gone = q[1];
#else
  int_t pos0 = nondet_int(); ASSUME(qlen >= 1 && pos0 >= 1 && pos0 <= qlen); gone = q[pos0];
#endif
  for (int k = 0; k <= NB; k++) { q0[k] = q[k]; l0[k] = l[k]; d0[k] = d[k]; }
#if OP == 1 || OP == 2
  mc64dd_(&i, &n, &q[1], &d[1], &l[1], &iway);
  __CPROVER_assert(qlen == (OP == 1 ? qlen0 + 1 : qlen0), "C17: heap length after mc64dd_");
#elif OP == 3
  mc64ed_(&qlen, &n, &q[1], &d[1], &l[1], &iway);
  __CPROVER_assert(qlen == qlen0 - 1, "C17: mc64ed_ removes exactly one element");
#else
  { int_t p0 = pos0; mc64fd_(&p0, &qlen, &n, &q[1], &d[1], &l[1], &iway); __CPROVER_assert(p0 == pos0, "C17: mc64fd_ leaves its position argument alone"); }
  __CPROVER_assert(qlen == qlen0 - 1, "C17: mc64fd_ removes exactly one element");
#endif
  int cnt[NB + 1]; for (int k = 0; k <= NB; k++) cnt[k] = 0;
  for (int p = 1; p <= NB; p++) if (p <= qlen) {
      __CPROVER_assert(q[p] >= 1 && q[p] <= NB, "C17: heap holds row indices");
      if (q[p] >= 1 && q[p] <= NB) { cnt[q[p]]++; __CPROVER_assert(l[q[p]] == p, "C17: position index L is the inverse of the heap array Q"); }
      if (p >= 2 && q[p] >= 1 && q[p] <= NB && q[p / 2] >= 1 && q[p / 2] <= NB) __CPROVER_assert(before(d[q[p / 2]], d[q[p]]), "C17: heap order on the distances");
  }
  for (int r = 1; r <= NB; r++) {
    int want = (member0[r] && r != gone) || r == added;
    __CPROVER_assert(cnt[r] == want, "C17: heap members are the old members minus the deleted row / plus the inserted row, each once");
    __CPROVER_assert(d[r] == d0[r], "C17: distances are not modified by a heap operation");
    if (!want && r != gone) __CPROVER_assert(l[r] == l0[r], "C17: index entries of rows outside the heap (Q2 positions) are not modified");
  }
  WITNESS_POINT();
#ifdef E1_NATIVE
  return e1_failed;
#else
  return 0;
#endif
}
