/* e1common.h — precision layer + small helpers for CBMC (E1) harnesses */
#ifndef E1COMMON_H
#define E1COMMON_H
#include <stdlib.h>
#include <string.h>
#if defined(PREC_D)
#include "slu_ddefs.h"
typedef double real_t; typedef double elem_t;
#define PX d
#define SLU_DT SLU_D
#elif defined(PREC_S)
#include "slu_sdefs.h"
typedef float real_t; typedef float elem_t;
#define PX s
#define SLU_DT SLU_S
#elif defined(PREC_Z)
#include "slu_zdefs.h"
typedef double real_t; typedef doublecomplex elem_t;
#define PX z
#define SLU_DT SLU_Z
#elif defined(PREC_C)
#include "slu_cdefs.h"
typedef float real_t; typedef singlecomplex elem_t;
#define PX c
#define SLU_DT SLU_C
#endif
#define CAT_(a, b) a##b
#define CAT(a, b) CAT_(a, b)
#define F(name) CAT(PX, name)
#define SPF(name) CAT(CAT(sp_, PX), name)
int nondet_int(void); unsigned nondet_uint(void); char nondet_char(void); double nondet_double(void); float nondet_float(void); long nondet_long(void); _Bool nondet_bool(void);
#ifdef __CPROVER
#define ASSUME(c) __CPROVER_assume(c)
#else
/* native replay of a CBMC counterexample: nondet_*() return the recorded values in order (file named by E1_REPLAY); a failed
   assertion prints "REPLAY-FAIL: <text>" and the process exits 1 at the end; a false assumption means the recording does not apply */
#include <stdio.h>
#include <fcntl.h>
#include <unistd.h>
static int e1_failed;
/* the recorded values are read with open/read only: several harnesses replace stdio functions (fgets, fscanf, ...) with file models */
static const char *e1_next(void) { static char buf[128]; static char *txt; static long pos, len;
  if (!txt) { const char *f = getenv("E1_REPLAY"); int fd = f ? open(f, O_RDONLY) : -1; txt = (char *)malloc(1 << 20); len = fd >= 0 ? read(fd, txt, (1 << 20) - 1) : 0; if (len < 0) len = 0; txt[len] = 0; if (fd >= 0) close(fd); }
  while (pos < len && (txt[pos] == ' ' || txt[pos] == '\n' || txt[pos] == '\t' || txt[pos] == '\r')) pos++;
  if (pos >= len) return "0";
  int k = 0; while (pos < len && k < 127 && !(txt[pos] == ' ' || txt[pos] == '\n' || txt[pos] == '\t' || txt[pos] == '\r')) buf[k++] = txt[pos++]; buf[k] = 0; return buf; }
int nondet_int(void) { return (int)strtol(e1_next(), 0, 0); } unsigned nondet_uint(void) { return (unsigned)strtoul(e1_next(), 0, 0); } char nondet_char(void) { return (char)strtol(e1_next(), 0, 0); }
double nondet_double(void) { return strtod(e1_next(), 0); } float nondet_float(void) { return (float)strtod(e1_next(), 0); } long nondet_long(void) { return strtol(e1_next(), 0, 0); } _Bool nondet_bool(void) { return strtol(e1_next(), 0, 0) != 0; }
#define ASSUME(c) do { if (!(c)) { printf("REPLAY-ASSUME-FALSE line %d\n", __LINE__); exit(3); } } while (0)
#define __CPROVER_assume(c) ASSUME(c)
#define __CPROVER_assert(c, msg) do { if (!(c)) { printf("REPLAY-FAIL: %s\n", msg); e1_failed = 1; } } while (0)
#define __CPROVER_same_object(a, b) 1
#define __CPROVER_POINTER_OFFSET(p) ((unsigned long)(p))
#define E1_NATIVE 1
#endif
#ifdef WITNESS
#define WITNESS_POINT() __CPROVER_assert(0, "WITNESS reachable")
#else
#define WITNESS_POINT() ((void)0)
#endif
#endif
