/* e1common.h — precision layer + small helpers for CBMC (E1) harnesses */
#ifndef E1COMMON_H
#define E1COMMON_H
#include <stdlib.h>
#include <string.h>
#if defined(PREC_D)
#include "slu_ddefs.h"
typedef double real_t; typedef double elem_t;
#define PX d
#define SLU_DT SLU_D
#elif defined(PREC_S)
#include "slu_sdefs.h"
typedef float real_t; typedef float elem_t;
#define PX s
#define SLU_DT SLU_S
#elif defined(PREC_Z)
#include "slu_zdefs.h"
typedef double real_t; typedef doublecomplex elem_t;
#define PX z
#define SLU_DT SLU_Z
#elif defined(PREC_C)
#include "slu_cdefs.h"
typedef float real_t; typedef singlecomplex elem_t;
#define PX c
#define SLU_DT SLU_C
#endif
#define CAT_(a, b) a##b
#define CAT(a, b) CAT_(a, b)
#define F(name) CAT(PX, name)
#define SPF(name) CAT(CAT(sp_, PX), name)
int nondet_int(void); unsigned nondet_uint(void); char nondet_char(void); double nondet_double(void); float nondet_float(void); long nondet_long(void); _Bool nondet_bool(void);
#ifdef __CPROVER
#define ASSUME(c) __CPROVER_assume(c)
#else
#define ASSUME(c) do { if (!(c)) exit(0); } while (0)
#endif
#ifdef WITNESS
#define WITNESS_POINT() __CPROVER_assert(0, "WITNESS reachable")
#else
#define WITNESS_POINT() ((void)0)
#endif
#endif
