/* h03relax.c — C03/C02 precondition: relaxed supernodes chosen by relax_snode() / heap_relax_snode() for EVERY elimination tree of order <= NB and every relax parameter.
 * ?gstrf factors a relaxed supernode [j,k] as one dense block that receives NO update from columns before j and whose work arrays are sized from the relax parameter.
 * That is only right if (a) j <= k < n and the ranges are pairwise disjoint, (b) every child (in the column elimination tree) of a member is itself a member
 * -- otherwise the updates of that child's column are never applied --, (c) the range holds at most relax_columns columns (at least one).
 * MODE 0: relax_snode on a postordered tree (what ?gstrf passes when SymmetricMode = NO); MODE 1: heap_relax_snode on any heap-ordered tree (SymmetricMode = YES),
 * which must also hand the caller's etree back unchanged. The tree (parent vector) and the relax parameter are symbolic. */
#include "e1common.h"
#ifndef NB
#define NB 6
#endif
#ifndef MODE
#define MODE 0
#endif
#ifndef FIX_N
#define FIX_N NB
#endif
int sp_ienv(int i) { return 1; }
#ifdef __CPROVER
int input_error(char *s, int *i) { return 0; }
void superlu_abort_and_exit(const char *msg) { __CPROVER_assume(0); exit(3); }
#endif

int main(void) {
  const int n = FIX_N; int et[NB + 1], et0[NB + 1], size[NB + 1], relax_end[NB + 1], desc[NB + 2];   /* ?gstrf passes a marker array of 3m >= n+1 ints as 'descendants' */
  int relax = nondet_int(); ASSUME(relax >= 1 && relax <= NB + 1);
  for (int j = 0; j < NB; j++) if (j < n) { et[j] = nondet_int(); ASSUME(et[j] > j && et[j] <= n); et0[j] = et[j]; }
  et[n] = et0[n] = n;
  for (int j = 0; j <= NB; j++) size[j] = 1;
  for (int j = 0; j < NB; j++) if (j < n && et[j] < n) size[et[j]] += size[j];
#if MODE == 0
  /* postordered: the block of size(j) consecutive indices ending at j lies inside its parent's block, for every j (then block(j) is exactly the subtree of j) */
  for (int j = 0; j < NB; j++) if (j < n && et[j] < n) ASSUME(j - size[j] + 1 >= et[j] - size[et[j]] + 1);
  for (int j = 0; j < NB; j++) if (j < n) ASSUME(j - size[j] + 1 >= 0);
#endif
  for (int j = 0; j <= NB; j++) { relax_end[j] = -77; desc[j] = -77; } desc[NB + 1] = -77;
#if MODE == 0
  relax_snode(n, et, relax, desc, relax_end);
#else
  heap_relax_snode(n, et, relax, desc, relax_end);
#endif
  int covered[NB + 1]; for (int j = 0; j <= NB; j++) covered[j] = 0;
  for (int j = 0; j < NB; j++) if (j < n) {
      int k = relax_end[j];
      __CPROVER_assert(k == SLU_EMPTY || (k >= j && k < n), "C03: a relaxed supernode is a non-empty range of columns inside the matrix");
      if (k != SLU_EMPTY && k >= j && k < n) {
        __CPROVER_assert(k - j + 1 <= relax, "C03: a relaxed supernode holds at most relax_columns columns (work arrays are sized from it)");
        for (int c = 0; c < NB; c++) if (c < n) {
            if (c >= j && c <= k) { __CPROVER_assert(!covered[c], "C03: relaxed supernodes are pairwise disjoint"); covered[c] = 1; }
            if (et0[c] >= j && et0[c] <= k) __CPROVER_assert(c >= j, "C02: every child of a member of a relaxed supernode is a member (no update from outside is skipped)");
        }
      }
  }
  for (int j = 0; j < NB; j++) if (j < n) __CPROVER_assert(et[j] == et0[j], "C10: the caller's elimination tree is handed back unchanged");
  __CPROVER_assert(relax_end[n] == -77, "C19: nothing written past relax_end[n-1]");
  WITNESS_POINT();
#ifdef E1_NATIVE
  printf("n=%d relax=%d et=", n, relax); for (int j = 0; j < n; j++) printf("%d ", et0[j]); printf(" relax_end="); for (int j = 0; j < n; j++) printf("%d ", relax_end[j]); printf("\n");
  return e1_failed;
#else
  return 0;
#endif
}
