/* h07xpand.c — C07 allocator half: growing one of the four factor arrays (?LUMemXpand -> ?expand with the REAL copy routines user_bcopy / copy_mem_int / copy_mem_<type>)
 * never changes what is stored: after a successful growth request of arbitrary type, from the state left by ?LUMemInit for EVERY workspace length lwork in [1, LMAX] (caller
 * workspace, both alignments) or under library allocation (-DMODEL_SYSTEM), the first `next` entries of the grown array and the ENTIRE previous capacity of the three other arrays
 * hold the values they held before (at their new addresses), Glu's pointers and lengths describe the new layout, and the work arrays at the tail are untouched. */
#include "e1common.h"
#ifndef LMAX
#define LMAX 320
#endif
static int t_panel, t_relax, t_maxsuper, t_rowblk, t_colblk, t_fill;
int sp_ienv(int i) { switch (i) { case 1: return t_panel; case 2: return t_relax; case 3: return t_maxsuper; case 4: return t_rowblk; case 5: return t_colblk; case 6: return t_fill; case 7: return t_maxsuper; } return 0; }
#ifdef __CPROVER
int input_error(char *s, int *i) { return 0; }
void superlu_abort_and_exit(const char *msg) { __CPROVER_assume(0); exit(3); }
#endif
#define CAP 24
static long ival(int t, int k) { return 1000 * (t + 1) + 7 * k + 3; }
static elem_t mk(long v) {
#if defined(PREC_Z) || defined(PREC_C)
  elem_t e; e.r = (real_t)v; e.i = (real_t)(v + 1); return e;
#else
  return (elem_t)v;
#endif
}
static int same(elem_t a, elem_t b) {
#if defined(PREC_Z) || defined(PREC_C)
  return a.r == b.r && a.i == b.i;
#else
  return a == b;
#endif
}

int main(void) {
  int n = nondet_int(), annz = nondet_int(); ASSUME(n >= 1 && n <= 2 && annz >= 1 && annz <= n * n); int m = n;
  t_panel = 1; t_relax = 1; t_maxsuper = nondet_int(); t_rowblk = 1; t_colblk = 1; t_fill = nondet_int();
  ASSUME(t_maxsuper >= 1 && t_maxsuper <= 2 && t_fill >= 1 && t_fill <= 3);
#ifdef MODEL_SYSTEM
  int_t lwork = 0; char *W = 0;
#else
  int_t lwork = nondet_int(); ASSUME(lwork >= 1 && lwork <= LMAX);
  int off = nondet_bool() ? 4 : 0; char *base = malloc((size_t)lwork + 8); ASSUME(base != 0); char *W = base + off;
#endif
  SuperMatrix L, U; GlobalLU_t Glu; int *iwork = 0; elem_t *dwork = 0;
  int_t info = F(LUMemInit)(DOFACT, W, lwork, m, n, annz, t_panel, (double)t_fill, &L, &U, &Glu, &iwork, &dwork);
  if (info != 0) { WITNESS_POINT(); return 0; }
  int_t cl = Glu.nzlumax, cu = Glu.nzumax, cs = Glu.nzlmax; ASSUME(cl <= CAP && cu <= CAP && cs <= CAP);
  /* fill the whole capacity of the four arrays and the integer work array with recognisable values */
  for (int k = 0; k < CAP; k++) { if (k < cl) ((elem_t *)Glu.lusup)[k] = mk(ival(0, k)); if (k < cu) { ((elem_t *)Glu.ucol)[k] = mk(ival(1, k)); Glu.usub[k] = (int_t)ival(3, k); } if (k < cs) Glu.lsub[k] = (int_t)ival(2, k); }
  int iw0 = iwork[0]; iwork[0] = 424242;
  int ty = nondet_int(); ASSUME(ty >= 0 && ty <= 3);
  int_t *ml = ty == LUSUP ? &Glu.nzlumax : ty == LSUB ? &Glu.nzlmax : &Glu.nzumax; int_t maxlen = *ml, old_len = *ml; int_t next = nondet_int(); ASSUME(next >= 0 && next <= maxlen);
  int_t r = F(LUMemXpand)(0, next, (MemType)ty, &maxlen, &Glu);
  if (r == 0) {
    /* USUB is grown together with UCOL (the UCOL request reserves its room); a USUB request on its own re-uses the length already granted */
    __CPROVER_assert(ty == USUB || maxlen > old_len, "C07: a successful growth request grows the array");
    int keep_l = ty == LUSUP ? next : cl, keep_u = ty == UCOL ? next : cu, keep_s = ty == LSUB ? next : cs, keep_us = (ty == USUB || ty == UCOL) ? (ty == USUB ? next : cu) : cu;
#ifdef MODEL_SYSTEM
    if (ty == UCOL) keep_us = cu;          /* under library allocation only the requested array is reallocated */
#endif
    for (int k = 0; k < CAP; k++) {
      if (k < keep_l) __CPROVER_assert(same(((elem_t *)Glu.lusup)[k], mk(ival(0, k))), "C07: supernode values survive a growth request");
      if (k < keep_u) __CPROVER_assert(same(((elem_t *)Glu.ucol)[k], mk(ival(1, k))), "C07: U values survive a growth request");
      if (k < keep_s) __CPROVER_assert(Glu.lsub[k] == (int_t)ival(2, k), "C07: L subscripts survive a growth request");
      if (k < keep_us) __CPROVER_assert(Glu.usub[k] == (int_t)ival(3, k), "C07: U subscripts survive a growth request");
    }
    __CPROVER_assert(iwork[0] == 424242, "C07: the work arrays at the other end of the workspace are not touched by a growth request");
    __CPROVER_assert((ty == LUSUP ? Glu.nzlumax : ty == LSUB ? Glu.nzlmax : Glu.nzumax) >= old_len, "C07: recorded capacity never shrinks");
  }
  WITNESS_POINT();
#ifdef E1_NATIVE
  return e1_failed;
#else
  return 0;
#endif
}
