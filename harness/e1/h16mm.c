/* h16mm.c — C16 (coordinate readers): ?readMM / ?readtriple return exactly the matrix described by the file, for every entry order,
 * general or symmetric storage (with or without diagonal entries), and touch no memory outside what they allocate.
 * stdio is replaced at token level: fgets/sscanf/fscanf/scanf hand the reader SYMBOLIC header fields and (i, j, v) triples
 * (text-to-number conversion is libc's and assumed). -DREADER=1 ?readMM  2 ?readtriple */
#include "e1common.h"
#include <stdarg.h>
#include <stdio.h>
#ifndef NB
#define NB 3
#endif
#ifndef NE
#define NE 3          /* entries in the file */
#endif
int sp_ienv(int i) { return 1; }
int input_error(char *s, int *i) { return 0; }
void superlu_abort_and_exit(const char *msg) { __CPROVER_assume(0); exit(3); }

static int f_n, f_nnz, f_sym; static int f_i[NE], f_j[NE]; static real_t f_v[NE]
#if defined(PREC_Z) || defined(PREC_C)
  , f_w[NE]
#endif
  ; static int sscanf_calls, triple_calls;
char *fgets(char *s, int size, FILE *fp) { s[0] = 'x'; s[1] = 0; return s; }
static void put(char *dst, const char *src) { int i = 0; while (src[i]) { dst[i] = src[i]; i++; } dst[i] = 0; }
int sscanf(const char *str, const char *fmt, ...) { va_list ap; va_start(ap, fmt); int r = 0;
  if (sscanf_calls == 0) { put(va_arg(ap, char *), "%%matrixmarket"); put(va_arg(ap, char *), "matrix"); put(va_arg(ap, char *), "coordinate");
#if defined(PREC_Z) || defined(PREC_C)
    put(va_arg(ap, char *), "complex");
#else
    put(va_arg(ap, char *), "real");
#endif
    put(va_arg(ap, char *), f_sym ? "symmetric" : "general"); r = 5; }
  else if (sscanf_calls == 1) { put(va_arg(ap, char *), "3"); r = 1; }                       /* first non-comment line: its first token */
  else { *va_arg(ap, int *) = f_n; *va_arg(ap, int *) = f_n; *va_arg(ap, int_t *) = f_nnz; r = 3; }
  sscanf_calls++; va_end(ap); return r; }
static int next_triple(va_list ap) { int k = triple_calls++; __CPROVER_assert(k < NE, "C16: reader asks for more entries than the file declares"); if (k >= NE) k = NE - 1;
  *va_arg(ap, int *) = f_i[k]; *va_arg(ap, int *) = f_j[k];
#if defined(PREC_Z) || defined(PREC_C)
  *va_arg(ap, real_t *) = f_v[k]; *va_arg(ap, real_t *) = f_w[k]; return 4;
#else
  *va_arg(ap, real_t *) = f_v[k]; return 3;
#endif
}
int fscanf(FILE *fp, const char *fmt, ...) { va_list ap; va_start(ap, fmt); int r = next_triple(ap); va_end(ap); return r; }
int scanf(const char *fmt, ...) { va_list ap; va_start(ap, fmt); int r; static int first = 1; if (first) { first = 0; *va_arg(ap, int *) = f_n; *va_arg(ap, int_t *) = f_nnz; r = 2; } else r = next_triple(ap); va_end(ap); return r; }
int tolower(int c) { return c; }

static int same_val(const elem_t *a, real_t re, real_t im) {
#if defined(PREC_Z) || defined(PREC_C)
  return a->r == re && a->i == im;
#else
  return *a == re;
#endif
}

int main(void) {
#if defined(FIX_N) && defined(FIX_NNZ)
  f_n = FIX_N; f_nnz = FIX_NNZ; f_sym = (READER == 1) ? FIX_SYM : 0;      /* sizes enumerated by the driver: allocation sizes stay concrete */
#else
  f_n = nondet_int(); f_nnz = nondet_int(); f_sym = (READER == 1) ? nondet_bool() : 0; ASSUME(f_n >= 1 && f_n <= NB && f_nnz >= 0 && f_nnz <= NE);
#endif
  for (int k = 0; k < NE; k++) { f_i[k] = nondet_int(); f_j[k] = nondet_int(); ASSUME(f_i[k] >= 1 && f_i[k] <= f_n && f_j[k] >= 1 && f_j[k] <= f_n);           /* well-formed: 1-based, in range */
    if (f_sym) ASSUME(f_i[k] >= f_j[k]);                                                                                              /* symmetric files store the lower triangle */
    if (k < f_nnz) for (int l = 0; l < k; l++) ASSUME(f_i[l] != f_i[k] || f_j[l] != f_j[k]);                                                          /* each position once */
#if defined(PREC_D) || defined(PREC_Z)
    f_v[k] = nondet_double();
#else
    f_v[k] = nondet_float();
#endif
    ASSUME(f_v[k] == f_v[k]);
#if defined(PREC_Z) || defined(PREC_C)
    f_w[k] = f_v[k] + 1;
#endif
  }
  int m = -1, n = -1; int_t nonz = -1; elem_t *a = 0; int_t *asub = 0, *xa = 0;
#if READER == 1
  F(readMM)((FILE *)0, &m, &n, &nonz, &a, &asub, &xa);
#else
  F(readtriple)(&m, &n, &nonz, &a, &asub, &xa);
#endif
  int offd = 0; for (int k = 0; k < NE; k++) if (k < f_nnz && f_sym && f_i[k] != f_j[k]) offd++;
  __CPROVER_assert(m == f_n && n == f_n, "C16: dimensions as written in the file");
  __CPROVER_assert(nonz == f_nnz + offd, "C16: number of stored entries (symmetric storage expanded)");
  __CPROVER_assert(xa[0] == 0 && xa[n] == nonz, "C16: column pointers span all entries");
  for (int j = 0; j < NB; j++) if (j < n) __CPROVER_assert(xa[j] <= xa[j + 1], "C16: column pointers monotone");
  for (int k = 0; k < NE; k++) if (k < f_nnz) { int i0 = f_i[k] - 1, j0 = f_j[k] - 1; int found = 0, foundT = 0; real_t im = 0;
#if defined(PREC_Z) || defined(PREC_C)
      im = f_w[k];
#endif
      for (int p = 0; p < NE * 2; p++) if (p < nonz) { if (p >= xa[j0] && p < xa[j0 + 1] && asub[p] == i0 && same_val(&a[p], f_v[k], im)) found = 1; if (p >= xa[i0] && p < xa[i0 + 1] && asub[p] == j0 && same_val(&a[p], f_v[k], im)) foundT = 1; }
      __CPROVER_assert(found, "C16: every file entry appears at its 0-based position with its value");
      if (f_sym && i0 != j0) __CPROVER_assert(foundT, "C16: symmetric storage is expanded to the mirrored entry"); }
  WITNESS_POINT();
#ifdef E1_NATIVE
  return e1_failed;
#else
  return 0;
#endif
}
