/* h_order.c — C10 side check (ENUMERATION, not a solver verdict: the ordering code is integer-only): the built-in orderings return a bijection on larger structured
 * patterns that drive the special paths of COLAMD / MMD (dense rows and columns, columns whose entries all lie in dense rows, empty columns, bordered blocks),
 * write nothing outside perm_c, and sp_preorder's view / etree invariants hold for the result.
 * args: n family variant colperm     family 0 bordered (dense last row, last column only the corner)  1 arrow + empty columns  2 dense rows + dense columns mixed  3 banded + k dense rows */
#include "hcommon.h"
#define BIGN 320
int main(int argc, char **argv) {
  int n = (int)h_arg(argc, argv, 0, 120), fam = (int)h_arg(argc, argv, 1, 0), var = (int)h_arg(argc, argv, 2, 0), colperm = (int)h_arg(argc, argv, 3, 3);
  if (n > BIGN) n = BIGN;
  static unsigned char P[BIGN][BIGN]; memset(P, 0, sizeof P);
  for (int i = 0; i < n; i++) P[i][i] = 1;
  if (fam == 0) { for (int j = 0; j < n; j++) P[n - 1][j] = 1; for (int i = 0; i + 1 < n; i++) { P[i][n - 1] = 0; if (i + 1 < n - 1) P[i + 1][i] = 1; if (var & 1) P[i][(i * 7 + 3) % (n - 1)] = 1; } if (var & 2) for (int j = 0; j < n; j++) P[n - 2][j] = 1; }
  else if (fam == 1) { for (int j = 0; j < n; j++) { P[0][j] = 1; P[j][0] = 1; } for (int j = 2; j < n; j += 5 + var) for (int i = 0; i < n; i++) P[i][j] = 0; }
  else if (fam == 2) { for (int j = 0; j < n; j++) { P[1][j] = 1; P[n / 2][j] = 1; } for (int i = 0; i < n; i++) { P[i][2] = 1; if (var) P[i][n - 3] = 1; } for (int j = 5; j < n; j += 9) { for (int i = 0; i < n; i++) P[i][j] = 0; P[1][j] = 1; if (var & 1) P[n / 2][j] = 1; } }
  else { for (int i = 0; i < n; i++) for (int d = -2; d <= 1; d++) if (i + d >= 0 && i + d < n) P[i][i + d] = 1; for (int r = 0; r <= var; r++) for (int j = 0; j < n; j++) P[(r * 37 + 5) % n][j] = 1; }
  int_t nnz = 0; for (int j = 0; j < n; j++) for (int i = 0; i < n; i++) nnz += P[i][j];
  elem_t *val = (elem_t *)malloc(sizeof(elem_t) * (nnz + 1)); int_t *rowind = (int_t *)malloc(sizeof(int_t) * (nnz + 1)), *colptr = (int_t *)malloc(sizeof(int_t) * (n + 1)); int_t k = 0;
  for (int j = 0; j < n; j++) { colptr[j] = k; for (int i = 0; i < n; i++) if (P[i][j]) { rowind[k] = i; val[k] = e_one(); k++; } } colptr[n] = k;
  SuperMatrix A, AC; F(Create_CompCol_Matrix)(&A, n, n, nnz, val, rowind, colptr, SLU_NC, SLU_DT, SLU_GE);
  int *buf = (int *)malloc(sizeof(int) * (n + 16)), *perm_c = buf + 8; for (int i = 0; i < n + 16; i++) buf[i] = -777;
  get_perm_c(colperm, &A, perm_c);
  int guards = 1; for (int i = 0; i < 8; i++) if (buf[i] != -777 || buf[n + 8 + i] != -777) guards = 0;
  slusym_assert_true(guards, "C10.ordering.writes-nothing-outside-perm_c");
  int ok = 1; { unsigned char *seen = (unsigned char *)calloc(n, 1); for (int i = 0; i < n; i++) { if (perm_c[i] < 0 || perm_c[i] >= n || seen[perm_c[i]]) ok = 0; else seen[perm_c[i]] = 1; } free(seen); }
  slusym_assert_true(ok, "C10.perm_c.bijection.ordering.large-structured");
  if (ok) { superlu_options_t opt; set_default_options(&opt); int *etree = (int *)malloc(sizeof(int) * (n + 1)); sp_preorder(&opt, &A, perm_c, etree, &AC);
    int ok2 = 1; { unsigned char *seen = (unsigned char *)calloc(n, 1); for (int i = 0; i < n; i++) { if (perm_c[i] < 0 || perm_c[i] >= n || seen[perm_c[i]]) ok2 = 0; else seen[perm_c[i]] = 1; } free(seen); }
    slusym_assert_true(ok2, "C10.perm_c.bijection.postordered.large-structured");
    int par = 1; for (int j = 0; j < n; j++) if (!(etree[j] > j && etree[j] <= n)) par = 0; slusym_assert_true(par, "C10.etree.parent-above-child.large-structured");
    NCPformat *ACs = (NCPformat *)AC.Store; int view = 1; if (ok2) for (int j = 0; j < n; j++) if (ACs->colbeg[perm_c[j]] != colptr[j] || ACs->colend[perm_c[j]] != colptr[j + 1]) view = 0;
    slusym_assert_true(view, "C10.permuted-view.lists-exactly-A's-columns.large-structured");
    Destroy_CompCol_Permuted(&AC); free(etree); }
  Destroy_SuperMatrix_Store(&A); free(val); free(rowind); free(colptr); free(buf);
  slusym_done(); return 0;
}
