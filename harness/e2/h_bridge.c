/* h_bridge.c — C20: Fortran-callable bridge c_fortran_?gssv_: factor once, solve many, free all; two interleaved handles.
 * args: n pattern1 pattern2 panel relax maxsuper rowblk colblk fill symcols nsolve nrhs ldbx two
 *   two: 1 => a second handle for pattern2 is factored between factor and solves of the first (non-interference) */
#include "hcommon.h"
typedef long long int fptr_t;
#if defined(PREC_D)
extern void c_fortran_dgssv_(int *, int *, int_t *, int *, double *, int_t *, int_t *, double *, int *, fptr_t *, int_t *);
#define BRIDGE c_fortran_dgssv_
#elif defined(PREC_Z)
extern void c_fortran_zgssv_(int *, int *, int_t *, int *, doublecomplex *, int_t *, int_t *, doublecomplex *, int *, fptr_t *, int_t *);
#define BRIDGE c_fortran_zgssv_
#elif defined(PREC_S)
extern void c_fortran_sgssv_(int *, int *, int_t *, int *, float *, int_t *, int_t *, float *, int *, fptr_t *, int_t *);
#define BRIDGE c_fortran_sgssv_
#else
extern void c_fortran_cgssv_(int *, int *, int_t *, int *, singlecomplex *, int_t *, int_t *, singlecomplex *, int *, fptr_t *, int_t *);
#define BRIDGE c_fortran_cgssv_
#endif

static void one_based(symmat_t *S, int_t **ri, int_t **cp) { *ri = (int_t *)malloc(sizeof(int_t) * (S->nnz + 1)); *cp = (int_t *)malloc(sizeof(int_t) * (S->n + 1)); for (int_t k = 0; k < S->nnz; k++) (*ri)[k] = S->rowind[k] + 1; for (int j = 0; j <= S->n; j++) (*cp)[j] = S->colptr[j] + 1; }

int main(int argc, char **argv) {
  int n = (int)h_arg(argc, argv, 0, 3); h_pat_t pat1 = argc > 2 ? argv[2] : "0x1ff", pat2 = argc > 3 ? argv[3] : "0x1ff";
  h_set_tuning((int)h_arg(argc, argv, 3, 1), (int)h_arg(argc, argv, 4, 1), (int)h_arg(argc, argv, 5, 1), (int)h_arg(argc, argv, 6, 1), (int)h_arg(argc, argv, 7, 1), (int)h_arg(argc, argv, 8, 20));
  unsigned symcols = (unsigned)h_arg(argc, argv, 9, -1); int nsolve = (int)h_arg(argc, argv, 10, 2), nrhs = (int)h_arg(argc, argv, 11, 1), ldb = n + (int)h_arg(argc, argv, 12, 0), two = (int)h_arg(argc, argv, 13, 0);
  symmat_t S1, S2; symmat_build_cols(&S1, n, n, pat1, "a", symcols); symmat_build_cols(&S2, n, n, pat2, "c", 0);   /* second matrix: concrete generic values */
  int_t *ri1, *cp1, *ri2, *cp2; one_based(&S1, &ri1, &cp1); one_based(&S2, &ri2, &cp2);
  long mark = slusym_heap_mark();
  fptr_t h1 = 0, h2 = 0; int_t info = -1, nnz1 = S1.nnz, nnz2 = S2.nnz; int iopt = 1, zero_nrhs = 0; char nm[32];
  BRIDGE(&iopt, &n, &nnz1, &zero_nrhs, S1.val, ri1, cp1, NULL, &ldb, &h1, &info);
  slusym_note("info", (long)info);
  { int same = 1; int_t k = 0; for (int j = 0; j < n; j++) for (int i = 0; i < n; i++) if (S1.D.nz[i][j]) { if (!e_same(S1.val[k], S1.D.a[i][j]) || ri1[k] != i + 1) same = 0; k++; } for (int j = 0; j <= n; j++) if (cp1[j] != S1.colptr[j] + 1) same = 0;
    slusym_assert_true(same, "C20.factor.leaves-caller-arrays-unchanged"); }
  if (info == 0) {
    if (two) { int_t info2 = -1; BRIDGE(&iopt, &n, &nnz2, &zero_nrhs, S2.val, ri2, cp2, NULL, &ldb, &h2, &info2); slusym_note("info2", (long)info2); }
    /* reference: the C simple driver with the same defaults on copies of A */
    elem_t *b = (elem_t *)malloc(sizeof(elem_t) * (ldb * nrhs + 1)), *br = (elem_t *)malloc(sizeof(elem_t) * (ldb * nrhs + 1)), *b0 = (elem_t *)malloc(sizeof(elem_t) * (ldb * nrhs + 1));
    for (int s = 0; s < nsolve; s++) {
      for (int j = 0; j < nrhs; j++) for (int i = 0; i < ldb; i++) { snprintf(nm, sizeof nm, "b%d_%d_%d", s, i, j); b[j * ldb + i] = br[j * ldb + i] = b0[j * ldb + i] = e_sym(nm); }
      iopt = 2; int_t sinfo = -1; BRIDGE(&iopt, &n, &nnz1, &nrhs, S1.val, ri1, cp1, b, &ldb, &h1, &sinfo);
      slusym_assert_true(sinfo == 0, "C20.solve.info=0");
      { elem_t *vc = (elem_t *)malloc(sizeof(elem_t) * (S1.nnz + 1)); int_t *rc = (int_t *)malloc(sizeof(int_t) * (S1.nnz + 1)), *cc = (int_t *)malloc(sizeof(int_t) * (n + 1)); memcpy(vc, S1.val, sizeof(elem_t) * S1.nnz); memcpy(rc, S1.rowind, sizeof(int_t) * S1.nnz); memcpy(cc, S1.colptr, sizeof(int_t) * (n + 1));
        SuperMatrix A, B, L, U; superlu_options_t opt; SuperLUStat_t stat; int pc[NMAX], pr[NMAX]; int_t ginfo = -1; set_default_options(&opt); StatInit(&stat);
        F(Create_CompCol_Matrix)(&A, n, n, S1.nnz, vc, rc, cc, SLU_NC, SLU_DT, SLU_GE); F(Create_Dense_Matrix)(&B, n, nrhs, br, ldb, SLU_DN, SLU_DT, SLU_GE);
        F(gssv)(&opt, &A, pc, pr, &L, &U, &B, &stat, &ginfo);
        slusym_assert_true(ginfo == 0, "C20.reference.info=0");
        if (ginfo == 0) { for (int j = 0; j < nrhs; j++) { for (int i = 0; i < n; i++) { if (!e_same(b[j * ldb + i], br[j * ldb + i])) slusym_note("terms_differ_from_gssv", 1); e_assert_zero(e_sub(b[j * ldb + i], br[j * ldb + i]), 1.0, "C20.solve.same-solution-as-simple-driver"); }
            for (int i = n; i < ldb; i++) e_assert_same(b[j * ldb + i], b0[j * ldb + i], "C20.solve.padding.untouched"); } Destroy_SuperNode_Matrix(&L); Destroy_CompCol_Matrix(&U); }
        Destroy_SuperMatrix_Store(&A); Destroy_SuperMatrix_Store(&B); StatFree(&stat); free(vc); free(rc); free(cc); }
    }
    free(b); free(br); free(b0);
    if (two && h2) { iopt = 3; int_t finfo; BRIDGE(&iopt, &n, &nnz2, &zero_nrhs, S2.val, ri2, cp2, NULL, &ldb, &h2, &finfo); }
  }
  iopt = 3; { int_t finfo; BRIDGE(&iopt, &n, &nnz1, &zero_nrhs, S1.val, ri1, cp1, NULL, &ldb, &h1, &finfo); }
  slusym_heap_assert_clean(mark, "C20.free.releases-everything");
  slusym_done();
  return 0;
}
