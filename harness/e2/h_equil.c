/* h_equil.c — C11: ?gsequ computes the documented row/column scale factors, ratios and amax (or reports the first zero row/column);
 * ?laqgs follows the threshold rule and multiplies each stored entry by exactly the selected factors.
 * args: m n pattern symcols   (entries range over the whole finite range incl. the subnormal gap assumption) */
#include "hcommon.h"
static real_t rmax2(real_t a, real_t b) { return a > b ? a : b; }
static real_t rmin2(real_t a, real_t b) { return a < b ? a : b; }

int main(int argc, char **argv) {
  int m = (int)h_arg(argc, argv, 0, 2), n = (int)h_arg(argc, argv, 1, 2); h_pat_t pat = argc > 3 ? argv[3] : "0xf"; unsigned symcols = (unsigned)h_arg(argc, argv, 3, -1);
  slusym_input_gap(1);
  symmat_t S; symmat_build_cols(&S, m, n, pat, "a", symcols);
  SuperMatrix A; F(Create_CompCol_Matrix)(&A, m, n, S.nnz, S.val, S.rowind, S.colptr, SLU_NC, SLU_DT, SLU_GE);
  real_t R[NMAX], C[NMAX], rowcnd = -3, colcnd = -3, amax = -3; int info = -99; for (int i = 0; i < NMAX; i++) R[i] = C[i] = -7;
  F(gsequ)(&A, R, C, &rowcnd, &colcnd, &amax, &info);
  slusym_note("info", (long)info);
  real_t smlnum = RMACH("S"), bignum = (real_t)1 / smlnum;
  /* definitions */
  real_t rowmax[NMAX], rsc[NMAX], colmax[NMAX]; real_t am = 0;
  for (int i = 0; i < m; i++) { real_t t = 0; for (int j = 0; j < n; j++) if (S.D.nz[i][j]) t = rmax2(t, e_abs1(S.D.a[i][j])); rowmax[i] = t; am = rmax2(am, t); }
  slusym_assert_true(info >= 0 && info <= m + n, "C11.info.range");
  if (info >= 1 && info <= m) { for (int i = 0; i < info - 1; i++) slusym_assert_cmp(2, (double)rowmax[i], 0.0, 1.0, "C11.info.first-zero-row"); slusym_assert_zero((double)rowmax[info - 1], 1.0, "C11.info.first-zero-row"); }
  else { for (int i = 0; i < m; i++) slusym_assert_cmp(2, (double)rowmax[i], 0.0, 1.0, "C11.rows.nonzero-when-not-reported");
    real_t rmn = bignum, rmx = 0; for (int i = 0; i < m; i++) { rmn = rmin2(rmn, rowmax[i]); rmx = rmax2(rmx, rowmax[i]); }
    for (int i = 0; i < m; i++) { real_t cl = rmin2(rmax2(rowmax[i], smlnum), bignum); rsc[i] = (real_t)1 / cl;
      slusym_assert_zero((double)(R[i] * cl - 1), 1.0, "C11.R=1/clamp(rowmax)"); slusym_assert_cmp(3, (double)R[i], (double)smlnum, 1.0, "C11.R.in-safe-range"); slusym_assert_cmp(5, (double)R[i], (double)bignum, 1.0, "C11.R.in-safe-range"); }
    slusym_assert_zero((double)(amax - am), 1.0, "C11.amax=largest-entry");
    slusym_assert_zero((double)(rowcnd * rmin2(rmx, bignum) - rmax2(rmn, smlnum)), 1.0, "C11.rowcnd=min/max");
    for (int j = 0; j < n; j++) { real_t t = 0; for (int i = 0; i < m; i++) if (S.D.nz[i][j]) t = rmax2(t, e_abs1(S.D.a[i][j]) * rsc[i]); colmax[j] = t; }
    if (info > m) { int jz = info - m - 1; for (int j = 0; j < jz; j++) slusym_assert_cmp(2, (double)colmax[j], 0.0, 1.0, "C11.info.first-zero-column"); slusym_assert_zero((double)colmax[jz], 1.0, "C11.info.first-zero-column"); }
    else { real_t cmn = bignum, cmx = 0; for (int j = 0; j < n; j++) { slusym_assert_cmp(2, (double)colmax[j], 0.0, 1.0, "C11.columns.nonzero-when-not-reported"); cmn = rmin2(cmn, colmax[j]); cmx = rmax2(cmx, colmax[j]); }
      for (int j = 0; j < n; j++) { real_t cl = rmin2(rmax2(colmax[j], smlnum), bignum); slusym_assert_zero((double)(C[j] * cl - 1), 1.0, "C11.C=1/clamp(scaled-colmax)"); slusym_assert_cmp(3, (double)C[j], (double)smlnum, 1.0, "C11.C.in-safe-range"); slusym_assert_cmp(5, (double)C[j], (double)bignum, 1.0, "C11.C.in-safe-range"); }
      slusym_assert_zero((double)(colcnd * rmin2(cmx, bignum) - rmax2(cmn, smlnum)), 1.0, "C11.colcnd=min/max");
      /* apply */
      char equed = '?'; elem_t v0[NMAX * NMAX]; for (int_t k = 0; k < S.nnz; k++) v0[k] = S.val[k];
      F(laqgs)(&A, R, C, rowcnd, colcnd, amax, &equed);
      slusym_note("equed", (long)equed);
      real_t small = RMACH("Safe minimum") / RMACH("Precision"), large = (real_t)1 / small; char want;
      /* the documented threshold is 0.1; the sources compare against the double constant 0.1 in every precision, LAPACK's single-precision routines against 0.1f: in single
         precision a ratio strictly between the two roundings of 0.1 may go either way without contradicting the documented rule */
      int ok_rule = 0;
      for (int alt = 0; alt < (sizeof(real_t) == 4 ? 2 : 1) && !ok_rule; alt++) { double th = alt ? (double)(float)0.1 : 0.1;
        if ((double)rowcnd >= th && amax >= small && amax <= large) want = (double)colcnd >= th ? 'N' : 'C'; else want = (double)colcnd >= th ? 'R' : 'B';
        if (equed == want) ok_rule = 1; }
      slusym_assert_true(ok_rule, "C11.equed.follows-threshold-rule");
      int re = equed == 'R' || equed == 'B', ce = equed == 'C' || equed == 'B'; int_t k = 0;
      for (int j = 0; j < n; j++) for (int i = 0; i < m; i++) if (S.D.nz[i][j]) { if (!re && !ce) e_assert_same(S.val[k], v0[k], "C11.apply.untouched-when-N");
            else { elem_t e = v0[k]; if (ce && re) e = e_scale(e, C[j] * R[i]); else if (ce) e = e_scale(e, C[j]); else e = e_scale(e, R[i]); e_assert_zero(e_sub(S.val[k], e), (double)e_abs1(e), "C11.apply.entry=a*selected-factors"); } k++; }
    }
  }
  slusym_done();
  return 0;
}
