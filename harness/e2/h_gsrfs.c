/* h_gsrfs.c — C13: ?gsrfs called directly with verified factors and an ARBITRARY symbolic X (so the refinement loop really runs):
 * the reported BERR(j) is the componentwise backward error of the RETURNED X(j); FERR >= 0; at most 5 steps; only X/ferr/berr written.
 * args: n pattern panel relax maxsuper rowblk colblk fill trans nrhs ldbx ldxx xmode perturb
 *   trans 0 N 1 T 2 C;  xmode 0: X fully symbolic, 1: only column 1 (or 0 if nrhs = 1) symbolic, the others the exact solution, 2: concrete B, X = 0 */
#include "hcommon.h"
int main(int argc, char **argv) {
  int n = (int)h_arg(argc, argv, 0, 2); h_pat_t pat = argc > 2 ? argv[2] : "0xf";
  h_set_tuning((int)h_arg(argc, argv, 2, 1), (int)h_arg(argc, argv, 3, 1), (int)h_arg(argc, argv, 4, 1), (int)h_arg(argc, argv, 5, 1), (int)h_arg(argc, argv, 6, 1), (int)h_arg(argc, argv, 7, 20));
  int tcode = (int)h_arg(argc, argv, 8, 0), nrhs = (int)h_arg(argc, argv, 9, 1), ldb = n + (int)h_arg(argc, argv, 10, 0), ldx = n + (int)h_arg(argc, argv, 11, 0), xmode = (int)h_arg(argc, argv, 12, 0);
  int perturb = (int)h_arg(argc, argv, 13, 0);
  symmat_t S; symmat_build_cols(&S, n, n, pat, "a", 0);            /* concrete generic matrix */
  /* perturb: the factors handed to ?gsrfs are those of a nearby matrix (diagonal times 1.4), as with reused or approximate factors: in exact arithmetic the refinement then
     contracts the error by a constant factor < 1/2 per step instead of converging at once, so the stopping rule runs into its step cap (slow convergence is what rounding
     causes in floating point) */
  elem_t Aorig[NMAX * NMAX]; for (int_t k = 0; k < S.nnz; k++) Aorig[k] = S.val[k];
  if (perturb) { int_t k = 0; for (int j = 0; j < n; j++) for (int i = 0; i < n; i++) if (S.D.nz[i][j]) { if (i == j) S.val[k] = e_scale(S.val[k], (real_t)1.4); k++; } }
  SuperMatrix A, AC, L, U, B, X; superlu_options_t opt; SuperLUStat_t stat; GlobalLU_t Glu; int perm_c[NMAX], perm_r[NMAX], etree[NMAX]; int_t info = -1; char nm[32];
  set_default_options(&opt); opt.ColPerm = NATURAL; for (int i = 0; i < n; i++) perm_c[i] = i;
  F(Create_CompCol_Matrix)(&A, n, n, S.nnz, S.val, S.rowind, S.colptr, SLU_NC, SLU_DT, SLU_GE);
  StatInit(&stat); sp_preorder(&opt, &A, perm_c, etree, &AC);
  F(gstrf)(&opt, &AC, sp_ienv(2), sp_ienv(1), etree, NULL, 0, perm_c, perm_r, &L, &U, &Glu, &stat, &info);
  if (info != 0) { slusym_note("info", (long)info); slusym_done(); return 0; }
  for (int_t k = 0; k < S.nnz; k++) S.val[k] = Aorig[k];          /* A itself is what the residuals and the backward error refer to */
  elem_t *b = (elem_t *)malloc(sizeof(elem_t) * (ldb * nrhs + 1)), *b0 = (elem_t *)malloc(sizeof(elem_t) * (ldb * nrhs + 1)), *x = (elem_t *)malloc(sizeof(elem_t) * (ldx * nrhs + 1)), *x0 = (elem_t *)malloc(sizeof(elem_t) * (ldx * nrhs + 1));
  for (int j = 0; j < nrhs; j++) { for (int i = 0; i < ldb; i++) { snprintf(nm, sizeof nm, "b%d_%d", i, j); b[j * ldb + i] = b0[j * ldb + i] = e_sym(nm); }
    for (int i = 0; i < ldx; i++) { snprintf(nm, sizeof nm, "x%d_%d", i, j); x[j * ldx + i] = x0[j * ldx + i] = e_sym(nm); } }
  if (xmode == 2) for (int j = 0; j < nrhs; j++) { for (int i = 0; i < n; i++) { b[j * ldb + i] = b0[j * ldb + i] = e_scale(e_one(), (real_t)(i + 2 * j + 1)); x[j * ldx + i] = x0[j * ldx + i] = e_zero(); } }   /* concrete start: single path */
  F(Create_Dense_Matrix)(&B, n, nrhs, b, ldb, SLU_DN, SLU_DT, SLU_GE); F(Create_Dense_Matrix)(&X, n, nrhs, x, ldx, SLU_DN, SLU_DT, SLU_GE);
  trans_t trans = tcode == 0 ? NOTRANS : tcode == 1 ? TRANS : CONJ;
  if (xmode == 1) { /* columns other than the chosen one start as the exact solution (no refinement there) */
    int keep = nrhs > 1 ? 1 : 0; for (int j = 0; j < nrhs; j++) if (j != keep) { elem_t c[NMAX]; for (int i = 0; i < n; i++) c[i] = b0[j * ldb + i]; SuperMatrix B1; int si; F(Create_Dense_Matrix)(&B1, n, 1, c, n, SLU_DN, SLU_DT, SLU_GE);
        F(gstrs)(trans, &L, &U, perm_c, perm_r, &B1, &stat, &si); for (int i = 0; i < n; i++) x[j * ldx + i] = x0[j * ldx + i] = c[i]; Destroy_SuperMatrix_Store(&B1); } }
  real_t R[NMAX], C[NMAX], ferr[4], berr[4]; for (int i = 0; i < n; i++) R[i] = C[i] = 1; char equed = 'N'; int rinfo = -1;
  F(gsrfs)(trans, &A, &L, &U, perm_c, perm_r, &equed, R, C, &B, &X, ferr, berr, &stat, &rinfo);
  slusym_note("info", (long)rinfo); slusym_note("steps", (long)stat.RefineSteps);
  slusym_assert_true(rinfo == 0, "C13.info=0"); slusym_assert_true(stat.RefineSteps <= 5, "C13.at-most-5-steps");
  real_t eps = RMACH("Epsilon"), safmin = RMACH("Safe minimum"), safe1 = (real_t)(n + 1) * safmin, safe2 = safe1 / eps;
  for (int j = 0; j < nrhs; j++) {
    real_t prod = 1; int any = 0;
    for (int i = 0; i < n; i++) { elem_t r = b0[j * ldb + i]; real_t d = e_abs1(b0[j * ldb + i]);
      for (int k = 0; k < n; k++) { int nz = tcode == 0 ? S.D.nz[i][k] : S.D.nz[k][i]; if (!nz) continue; elem_t a = tcode == 0 ? S.D.a[i][k] : S.D.a[k][i]; if (tcode == 2) a = e_conj(a); r = e_sub(r, e_mul(a, x[j * ldx + k])); d += e_abs1(a) * e_abs1(x[j * ldx + k]); }
      real_t num = e_abs1(r);
      if (d > safe2) { slusym_assert_cmp(3, (double)(berr[j] * d), (double)num, 1.0, "C13.berr.is-backward-error-of-returned-X"); prod = prod * (berr[j] * d - num); any = 1; }
      else if (d != 0) { slusym_assert_cmp(3, (double)(berr[j] * d), (double)(num + safe1), 1.0, "C13.berr.is-backward-error-of-returned-X"); prod = prod * (berr[j] * d - num - safe1); any = 1; } }
    if (any) slusym_assert_zero((double)prod, 1.0, "C13.berr.attained"); else slusym_assert_zero((double)berr[j], 1.0, "C13.berr.attained");
    slusym_assert_cmp(3, (double)ferr[j], 0.0, 1.0, "C13.ferr.nonnegative");
    for (int i = n; i < ldx; i++) e_assert_same(x[j * ldx + i], x0[j * ldx + i], "C13.X.padding.untouched");
    for (int i = 0; i < ldb; i++) e_assert_same(b[j * ldb + i], b0[j * ldb + i], "C13.B.untouched");
  }
  slusym_done();
  return 0;
}
