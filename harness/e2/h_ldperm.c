/* h_ldperm.c — C17: ?ldperm(job 5) returns a maximum-product matching with unit scaling, leaves the index arrays unchanged and
 * reports structural singularity by a nonzero return value.  Magnitudes enter through the log model (fresh monotone atoms for log).
 * args: n pattern symcols singular valmode seed
 *   valmode 0: concrete entries are the generic values of hcommon.h; 1: concrete entries are +-2^k with k = small pseudo-random integers (seed) -- many exact
 *   ties between sums of logarithms, which is what drives mc64's heap (delete-from-the-middle, decrease-key) paths; run with SLUSYM_LOG2=1 so that
 *   log(2^k) = k exactly (base-2 logarithms; unit change invisible to mc64's linear arithmetic). With n > 6 optimality is checked through the returned
 *   dual variables (feasible scaling with equality on the matching is an optimality certificate) instead of enumerating all matchings. */
#include "hcommon.h"
static int next_perm(int *p, int n) { int i = n - 2; while (i >= 0 && p[i] > p[i + 1]) i--; if (i < 0) return 0; int j = n - 1; while (p[j] < p[i]) j--; int t = p[i]; p[i] = p[j]; p[j] = t; for (int a = i + 1, b = n - 1; a < b; a++, b--) { t = p[a]; p[a] = p[b]; p[b] = t; } return 1; }
int main(int argc, char **argv) {
  int n = (int)h_arg(argc, argv, 0, 2); h_pat_t pat = argc > 2 ? argv[2] : "0xf"; unsigned symcols = (unsigned)h_arg(argc, argv, 2, -1); int singular = (int)h_arg(argc, argv, 3, 0);
  int valmode = (int)h_arg(argc, argv, 4, 0); long seed = h_arg(argc, argv, 5, 1);
  symmat_t S; symmat_build_cols(&S, n, n, pat, "a", symcols);
  if (valmode == 1) { int_t k = 0; for (int j = 0; j < n; j++) for (int i = 0; i < n; i++) if (S.D.nz[i][j]) { if (!((symcols >> j) & 1)) { unsigned long x = (unsigned long)(seed * 2654435761UL + (unsigned long)(i * 131 + j * 31 + 7) * 40503UL); x ^= x >> 13; x *= 0x9E3779B1UL; x ^= x >> 16;
          int e = (int)(x % 5) - 2; real_t v = 1; for (int t = 0; t < (e < 0 ? -e : e); t++) v = e < 0 ? v / 2 : v * 2; if ((x >> 8) & 1) v = -v;
#if IS_COMPLEX
          S.val[k] = e_make(v, 0);
#else
          S.val[k] = v;
#endif
          S.D.a[i][j] = S.val[k]; } k++; } }
  for (int_t k = 0; k < S.nnz; k++) slusym_assume_cmp(6, (double)e_abs1(S.val[k]), 0.0);        /* stored entries are nonzero (explicit zeros are outside this harness) */
  int_t cp0[NMAX + 1], ri0[NMAX * NMAX]; for (int j = 0; j <= n; j++) cp0[j] = S.colptr[j]; for (int_t k = 0; k < S.nnz; k++) ri0[k] = S.rowind[k];
  int perm[NMAX]; double u[NMAX], v[NMAX]; for (int i = 0; i < n; i++) { perm[i] = -5; u[i] = v[i] = 0; }
  int ret = F(ldperm)(5, n, S.nnz, S.colptr, S.rowind, S.val, perm, u, v);
  slusym_note("info", (long)ret);
  { int same = 1; for (int j = 0; j <= n; j++) if (cp0[j] != S.colptr[j]) same = 0; for (int_t k = 0; k < S.nnz; k++) if (ri0[k] != S.rowind[k]) same = 0; slusym_assert_true(same, "C17.index-arrays.unchanged"); }
  if (singular) { slusym_assert_true(ret != 0, "C17.structural-singularity.reported"); slusym_done(); return 0; }
  if (ret == 1) slusym_assert_true(0, "C17.nonsingular.not-reported-singular");
  int ok = h_is_perm(perm, n); slusym_assert_true(ok, "C17.perm.bijection");
  if (ok) { int iperm[NMAX]; for (int i = 0; i < n; i++) iperm[perm[i]] = i;
    double lam[NMAX][NMAX];
    for (int i = 0; i < n; i++) for (int j = 0; j < n; j++) if (S.D.nz[i][j]) {
#if IS_COMPLEX
        lam[i][j] = log(sqrt((double)S.D.a[i][j].r * (double)S.D.a[i][j].r + (double)S.D.a[i][j].i * (double)S.D.a[i][j].i));
#else
        lam[i][j] = log(fabs((double)S.D.a[i][j]));
#endif
      }
    int pres = 1; for (int j = 0; j < n; j++) if (!S.D.nz[iperm[j]][j]) pres = 0; slusym_assert_true(pres, "C17.matching.places-stored-nonzeros-on-the-diagonal");
    if (pres) { double best = 0; for (int j = 0; j < n; j++) best += lam[iperm[j]][j];
      int tau[NMAX]; for (int j = 0; j < n; j++) tau[j] = j;
      if (n <= 6) do { int feas = 1; for (int j = 0; j < n; j++) if (!S.D.nz[tau[j]][j]) feas = 0; if (feas) { double s = 0; for (int j = 0; j < n; j++) s += lam[tau[j]][j]; slusym_assert_cmp(3, best, s, 1.0, "C17.matching.maximises-product"); } } while (next_perm(tau, n));
      if (ret == 0) { for (int i = 0; i < n; i++) for (int j = 0; j < n; j++) if (S.D.nz[i][j]) { double t = u[i] + v[j] + lam[i][j]; if (iperm[j] == i) slusym_assert_zero(t, 1.0, "C17.scaling.diagonal-magnitude-one"); else slusym_assert_cmp(5, t, 0.0, 1.0, "C17.scaling.off-diagonal-at-most-one"); } }
    } }
  slusym_done(); return 0;
}
