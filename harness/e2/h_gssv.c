/* h_gssv.c — E2 harness: simple driver ?gssv on a symbolic system (C01, C04 driver half, C19 lifecycle).
 * args: n pattern storage colperm permidx symmode panel relax maxsuper rowblk colblk fill umode flags symcols nrhs ldbx
 *   storage: 0 SLU_NC (stored matrix is A), 1 SLU_NR (the same arrays are read as compressed rows: A = S^T)
 *   flags  : bit1 pattern structurally singular (info = 0 forbidden)
 *   ldbx   : extra rows of padding in B (ldb = n + ldbx) */
#include "hcommon.h"

int main(int argc, char **argv) {
  int n = (int)h_arg(argc, argv, 0, 3); h_pat_t pat = argc > 2 ? argv[2] : "0x1ff";
  int storage = (int)h_arg(argc, argv, 2, 0), colperm = (int)h_arg(argc, argv, 3, 0), permidx = (int)h_arg(argc, argv, 4, 0), symmode = (int)h_arg(argc, argv, 5, 0);
  h_set_tuning((int)h_arg(argc, argv, 6, 1), (int)h_arg(argc, argv, 7, 1), (int)h_arg(argc, argv, 8, 1), (int)h_arg(argc, argv, 9, 1), (int)h_arg(argc, argv, 10, 1), (int)h_arg(argc, argv, 11, 20));
  int umode = (int)h_arg(argc, argv, 12, 0), flags = (int)h_arg(argc, argv, 13, 0); unsigned symcols = (unsigned)h_arg(argc, argv, 14, -1);
  int nrhs = (int)h_arg(argc, argv, 15, 1), ldb = n + (int)h_arg(argc, argv, 16, 0);

  symmat_t S; symmat_build_cols(&S, n, n, pat, "a", symcols);
  real_t u = 1;
  if (umode == 1) { u = SYMREAL("u"); slusym_assume_cmp(3, (double)u, 0.0); slusym_assume_cmp(5, (double)u, 1.0); } else if (umode == 2) u = 0.5; else if (umode == 3) u = 0;   /* documented range of DiagPivotThresh is [0,1] */
  elem_t *b = (elem_t *)malloc(sizeof(elem_t) * (ldb * (nrhs > 0 ? nrhs : 1) + 1)), *b0 = (elem_t *)malloc(sizeof(elem_t) * (ldb * (nrhs > 0 ? nrhs : 1) + 1));
  char nm[32];
  for (int j = 0; j < nrhs; j++) for (int i = 0; i < ldb; i++) { snprintf(nm, sizeof nm, "b%d_%d", i, j); b[j * ldb + i] = b0[j * ldb + i] = e_sym(nm); }

  SuperMatrix A, L, U, B; superlu_options_t opt; SuperLUStat_t stat;
  set_default_options(&opt); opt.SymmetricMode = symmode ? YES : NO; opt.DiagPivotThresh = (double)u;
  opt.ColPerm = colperm == 0 ? NATURAL : colperm == 1 ? MMD_ATA : colperm == 2 ? MMD_AT_PLUS_A : colperm == 3 ? COLAMD : MY_PERMC;
  if (storage == 0) F(Create_CompCol_Matrix)(&A, n, n, S.nnz, S.val, S.rowind, S.colptr, SLU_NC, SLU_DT, SLU_GE);
  else F(Create_CompRow_Matrix)(&A, n, n, S.nnz, S.val, S.rowind, S.colptr, SLU_NR, SLU_DT, SLU_GE);
  F(Create_Dense_Matrix)(&B, n, nrhs, b, ldb, SLU_DN, SLU_DT, SLU_GE);
  int perm_c[NMAX], perm_r[NMAX]; for (int i = 0; i < n; i++) perm_c[i] = perm_r[i] = -7;
  if (colperm == 4) h_kth_perm(n, permidx, perm_c);
  StatInit(&stat);
  long mark = slusym_heap_mark();
  int_t info = -12345;
  F(gssv)(&opt, &A, perm_c, perm_r, &L, &U, &B, &stat, &info);
  slusym_note("info", (long)info);
  slusym_assert_true(info >= 0 && info <= n, "C04.driver.info.range");

  { int same = 1; int_t k = 0; for (int j = 0; j < n; j++) for (int i = 0; i < n; i++) if (S.D.nz[i][j]) { if (!e_same(S.val[k], S.D.a[i][j]) || S.rowind[k] != i) same = 0; k++; }
    slusym_assert_true(same && S.colptr[n] == S.nnz, "C01.A.unchanged"); }
  if (info == 0) {
    if (flags & 2) slusym_assert_true(0, "C04.structurally-singular-must-be-reported");
    slusym_assert_true(h_is_perm(perm_c, n) && h_is_perm(perm_r, n), "C01.perms.bijections");
    for (int j = 0; j < nrhs; j++) {
      for (int i = 0; i < n; i++) { elem_t s = e_zero(); real_t sc = e_abs1(b0[j * ldb + i]);
        for (int k = 0; k < n; k++) { int nz = storage == 0 ? S.D.nz[i][k] : S.D.nz[k][i]; if (!nz) continue; elem_t aik = storage == 0 ? S.D.a[i][k] : S.D.a[k][i]; elem_t t = e_mul(aik, b[j * ldb + k]); s = e_add(s, t); sc += e_abs1(t); }
        e_assert_zero(e_sub(s, b0[j * ldb + i]), (double)sc, "C01.AX=B"); }
      for (int i = n; i < ldb; i++) e_assert_same(b[j * ldb + i], b0[j * ldb + i], "C01.padding.untouched");
    }
    /* U diagonal nonzero on success (C04: success is never reported with a zero on U's diagonal) */
    dense_t DL, DU; if (h_extract_LU(&L, &U, n, n, &DL, &DU)) for (int j = 0; j < n; j++) e_assert_nonzero(DU.a[j][j], "C04.driver.Udiag.nonzero");
  } else if (info > 0 && info <= n) {
    for (int j = 0; j < nrhs; j++) for (int i = 0; i < ldb; i++) e_assert_same(b[j * ldb + i], b0[j * ldb + i], "C04.driver.B.untouched");
  }
  if (info >= 0 && info <= n) { Destroy_SuperNode_Matrix(&L); Destroy_CompCol_Matrix(&U); }
  slusym_heap_assert_clean(mark, "C19.gssv.no-leak");
  StatFree(&stat);
  slusym_done();
  return 0;
}
