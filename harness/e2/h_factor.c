/* h_factor.c — E2 harness: get_perm_c / sp_preorder / ?gstrf on a symbolic matrix.
 * Serves C02 (factor identity, pivot bounds), C03 (structure), C04 (exact singularity), C10 side checks.
 * args: m n pattern colperm permidx symmode panel relax maxsuper rowblk colblk fill umode flags
 *   colperm: 0 NATURAL 1 MMD_ATA 2 MMD_AT_PLUS_A 3 COLAMD 4 MY_PERMC(permidx)
 *   umode  : 0 u=1.0  1 u symbolic in [0,1]  2 u=0.5  3 u=0.0 (documented as legal "diagonal pivoting")
 *   flags  : bit0 assume strict column diagonal dominance; bit1 pattern is structurally singular (info=0 forbidden); bit2 (with lwork > 0) an unrelated problem is factored in the same workspace first; bit3 rows stored in scrambled order (pivots far from the diagonal, pivot rows of neighbouring columns not adjacent)
 *   symcols: bitmask of symbolic columns (default all); other columns hold fixed generic concrete values
 *   lwork  : 0 library allocation; > 0 caller workspace of exactly lwork bytes inside a guarded arena (C08); woff: 0 / 4 byte misalignment
 *   failat : k > 0: the k-th allocation request made during ?gstrf fails (C08 library-allocation half) */
#include "hcommon.h"

int main(int argc, char **argv) {
  int m = (int)h_arg(argc, argv, 0, 3), n = (int)h_arg(argc, argv, 1, 3); h_pat_t pat = argc > 3 ? argv[3] : "0x1ff";
  int colperm = (int)h_arg(argc, argv, 3, 0), permidx = (int)h_arg(argc, argv, 4, 0), symmode = (int)h_arg(argc, argv, 5, 0);
  h_set_tuning((int)h_arg(argc, argv, 6, 1), (int)h_arg(argc, argv, 7, 1), (int)h_arg(argc, argv, 8, 1), (int)h_arg(argc, argv, 9, 1), (int)h_arg(argc, argv, 10, 1), (int)h_arg(argc, argv, 11, 20));
  int umode = (int)h_arg(argc, argv, 12, 0), flags = (int)h_arg(argc, argv, 13, 0);

  unsigned symcols = (unsigned)h_arg(argc, argv, 14, -1); long lwork = h_arg(argc, argv, 15, 0), woff = h_arg(argc, argv, 16, 0), failat = h_arg(argc, argv, 17, 0);
  void *work = lwork > 0 ? slusym_workspace(lwork, woff) : NULL;
  if (flags & 8) h_rowscramble = 1;
  symmat_t S; symmat_build_cols(&S, m, n, pat, "a", symcols);
  if (flags & 1) symmat_assume_coldom(&S);
  real_t u = 1;
  if (umode == 1) { u = SYMREAL("u"); slusym_assume_cmp(3, (double)u, 0.0); slusym_assume_cmp(5, (double)u, 1.0); } else if (umode == 2) u = 0.5; else if (umode == 3) u = 0;   /* documented range of DiagPivotThresh is [0,1] */

  SuperMatrix A, AC, L, U; superlu_options_t opt; SuperLUStat_t stat; GlobalLU_t Glu;
  set_default_options(&opt); opt.SymmetricMode = symmode ? YES : NO; opt.DiagPivotThresh = (double)u;   /* field is double in all precisions */
  opt.ColPerm = colperm == 0 ? NATURAL : colperm == 1 ? MMD_ATA : colperm == 2 ? MMD_AT_PLUS_A : colperm == 3 ? COLAMD : MY_PERMC;
  if ((flags & 4) && lwork > 0) {   /* history: an unrelated dense m x n problem is factored in the same caller workspace first (its bookkeeping values stay behind in the buffer) */
    symmat_t S0; symmat_build_cols(&S0, m, n, "0xffffffffffffffffffffffffffffffffffff", "h", 0); SuperMatrix A0, AC0, L0, U0; GlobalLU_t Glu0; SuperLUStat_t st0; superlu_options_t o0; int pc0[NMAX], pr0[NMAX], et0[NMAX]; int_t inf0 = -1;
    set_default_options(&o0); o0.ColPerm = NATURAL; F(Create_CompCol_Matrix)(&A0, m, n, S0.nnz, S0.val, S0.rowind, S0.colptr, SLU_NC, SLU_DT, SLU_GE); for (int j = 0; j < n; j++) pc0[j] = j;
    StatInit(&st0); sp_preorder(&o0, &A0, pc0, et0, &AC0); F(gstrf)(&o0, &AC0, sp_ienv(2), sp_ienv(1), et0, work, (int_t)lwork, pc0, pr0, &L0, &U0, &Glu0, &st0, &inf0);
    slusym_note("history_info", (long)inf0); Destroy_CompCol_Permuted(&AC0); if (inf0 >= 0 && inf0 <= n) { Destroy_SuperMatrix_Store(&L0); Destroy_SuperMatrix_Store(&U0); } Destroy_SuperMatrix_Store(&A0); StatFree(&st0); symmat_free(&S0); }
  F(Create_CompCol_Matrix)(&A, m, n, S.nnz, S.val, S.rowind, S.colptr, SLU_NC, SLU_DT, SLU_GE);
  int perm_c[NMAX], perm_r[NMAX], etree[NMAX], perm_c_in[NMAX];
  if (colperm == 4) h_kth_perm(n, permidx, perm_c); else get_perm_c(colperm, &A, perm_c);
  slusym_assert_true(h_is_perm(perm_c, n), "C10.perm_c.bijection.ordering");
  memcpy(perm_c_in, perm_c, sizeof(int) * n);
  StatInit(&stat);
  long mark = slusym_heap_mark();
  sp_preorder(&opt, &A, perm_c, etree, &AC);
  slusym_assert_true(h_is_perm(perm_c, n), "C10.perm_c.bijection.postordered");
  int_t info = -12345;
  if (failat > 0) slusym_fail_malloc_at(failat);
  Glu.num_expansions = 0;      /* ?LUMemInit leaves it at 0 until the initial allocation has succeeded: tells a shortage at set-up from one during the factorization */
  F(gstrf)(&opt, &AC, sp_ienv(2), sp_ienv(1), etree, work, (int_t)lwork, perm_c, perm_r, &L, &U, &Glu, &stat, &info);
  slusym_fail_malloc_at(0);
  slusym_note("info", (long)info); slusym_note("expansions", (long)stat.expansions);
  if (lwork > 0) slusym_workspace_check("C08.workspace.nothing-written-outside");
  if (lwork > 0 || failat > 0) { slusym_assert_true(info >= 0, "C08.info.nonnegative"); if (info > n) slusym_note("shortage", 1); }
  else slusym_assert_true(info >= 0 && info <= n, "C04.info.range");

  /* the caller's matrix is input-only for the factor routine */
  { int same = 1; int_t k = 0; for (int j = 0; j < n; j++) for (int i = 0; i < m; i++) if (S.D.nz[i][j]) { if (!e_same(S.val[k], S.D.a[i][j]) || S.rowind[k] != i) same = 0; k++; } slusym_assert_true(same && S.colptr[n] == S.nnz, "C02.A.unchanged"); }

  int pcok = h_is_perm(perm_c, n);
  slusym_assert_true(pcok, "C02.perm_c.bijection");
  dense_t DL, DU, B; int iperm_c[NMAX]; if (pcok) for (int j = 0; j < n; j++) iperm_c[perm_c[j]] = j;
  if (info == 0 && pcok) {
    if (flags & 2) slusym_assert_true(0, "C04.structurally-singular-must-be-reported");
    int prok = h_is_perm(perm_r, m); slusym_assert_true(prok, "C02.perm_r.bijection");
    int vok = h_validate_LU(&L, &U, m, n, 0, &DL, &DU, "C03");    /* the structure clauses do not depend on perm_r being complete */
    if (prok && vok) {
      h_permuted(&S.D, perm_r, perm_c, &B);
      h_assert_LU_eq(&DL, &DU, &B, n, m, "C02.LU=PrAPc");
      for (int j = 0; j < n; j++) e_assert_nonzero(DU.a[j][j], "C02.Udiag.nonzero");
      h_assert_pivot_bounds(&DL, &DU, &B, m, n, u, perm_r, iperm_c, 1, "C02.multiplier.bound", "C02.diagonal.preference");
    }
  } else if (info > 0 && info <= n && pcok) {
    /* only the part before column c = info-1 is promised: c distinct pivot rows, leading block factored, all candidates of column c zero */
    int c = (int)info - 1, prow[NMAX], cnt = 0, ok = 1; for (int k = 0; k < c; k++) prow[k] = -1;
    for (int i = 0; i < m; i++) if (perm_r[i] >= 0 && perm_r[i] < c) { if (prow[perm_r[i]] >= 0) ok = 0; prow[perm_r[i]] = i; cnt++; }
    slusym_assert_true(ok && cnt == c, "C04.leading.pivot-rows.distinct");
    if (ok && cnt == c && h_extract_LU(&L, &U, m, n, &DL, &DU)) {
      for (int i = 0; i < c; i++) for (int j = 0; j <= c; j++) { elem_t s = e_zero(); elem_t bij = S.D.a[prow[i]][iperm_c[j]]; real_t sc = e_abs1(bij);   /* row i of L(0:c,0:c) times U(:,j), j <= c */
          for (int k = 0; k <= i && k <= j; k++) if (DL.nz[i][k] && DU.nz[k][j]) { elem_t t = e_mul(DL.a[i][k], DU.a[k][j]); s = e_add(s, t); sc += e_abs1(t); }
          e_assert_zero(e_sub(s, bij), (double)sc, j < c ? "C04.leading.LU" : "C04.leading.ucol"); }
      for (int k = 0; k < c; k++) e_assert_nonzero(DU.a[k][k], "C04.earlier.pivots.nonzero");
      /* every candidate of column c is exactly zero  <=>  every (c+1)-minor {pivot rows + one other row} x {columns 0..c} vanishes (leading block nonsingular) */
      if (c + 1 <= 5) {
        for (int r = 0; r < m; r++) { if (perm_r[r] >= 0 && perm_r[r] < c) continue; elem_t M[NMAX][NMAX];
          for (int i = 0; i < c; i++) for (int j = 0; j <= c; j++) M[i][j] = S.D.a[prow[i]][iperm_c[j]];
          for (int j = 0; j <= c; j++) M[c][j] = S.D.a[r][iperm_c[j]];
          e_assert_zero(h_det(c + 1, M), 1.0, "C04.candidates.all.zero"); }
      } else {
        /* large leading block: use the (verified) multipliers of the remaining rows, identifiable when perm_r is injective on them */
        int seen[NMAX + 2] = {0}, inj = 1; for (int r = 0; r < m; r++) { int p = perm_r[r]; if (p >= 0 && p < c) continue; if (p < c || p >= m || seen[p]) inj = 0; else seen[p] = 1; }
        if (!inj) slusym_note("C04.candidates.unchecked", 1);
        else for (int r = 0; r < m; r++) { int p = perm_r[r]; if (p < c) continue;
          for (int j = 0; j <= c; j++) { elem_t s = e_zero(); elem_t bij = S.D.a[r][iperm_c[j]]; real_t sc = e_abs1(bij); int lim = j < c ? j : c - 1;
            for (int k = 0; k <= lim; k++) if (DL.nz[p][k] && DU.nz[k][j]) { elem_t t = e_mul(DL.a[p][k], DU.a[k][j]); s = e_add(s, t); sc += e_abs1(t); }
            e_assert_zero(e_sub(s, bij), (double)sc, j < c ? "C04.leading.LU" : "C04.candidates.all.zero"); } }
      }
    }
  }
  /* lifecycle: everything the factor routine allocated is owned by L, U (and AC); after the caller destroys them nothing remains */
  Destroy_CompCol_Permuted(&AC);
  if (info >= 0 && info <= n) { if (lwork > 0) { Destroy_SuperMatrix_Store(&L); Destroy_SuperMatrix_Store(&U); } else { Destroy_SuperNode_Matrix(&L); Destroy_CompCol_Matrix(&U); } }
  slusym_heap_assert_clean(mark, info > n ? (Glu.num_expansions > 0 ? "C19.factor.no-leak.after-inflight-shortage" : "C19.factor.no-leak.after-shortage") : "C19.factor.no-leak");
  StatFree(&stat);
  slusym_done();
  return 0;
}
