/* h_gssvx.c — E2 harness: expert driver ?gssvx over a history of calls on one sparsity pattern.
 * Serves C05 (op(A)X=B, documented mutation of A and B), C06 (refactor / re-solve histories), parts of C12/C13, C08 (size query), C19.
 * args: n pattern storage colperm permidx panel relax maxsuper rowblk colblk fill umode symcols nrhs ldbx hist trans equil refine cond growth lworkmode ldxx scalemode
 *   hist  : decimal digits, one per step (first step must be 1): 1 DOFACT 2 SamePattern 3 SamePattern_SameRowPerm 4 FACTORED
 *   trans : decimal digits per step: 1 NOTRANS 2 TRANS 3 CONJ (missing digits -> last given)
 *   equil : 0 NO 1 YES;  refine: 0 NOREFINE 1 SLU_SINGLE 2 SLU_DOUBLE;  cond/growth: 0/1
 *   lworkmode: 0 library allocation; -1 size query (first step only); > 0 one caller workspace of that many bytes for every step of the history (hist digits 1, 3, 4 only)
 *   scalemode: bit2 (4): at every step after the first the concrete entry (n-1, 0) is 64 times larger, so a remembered diagonal pivot of column 0 fails the threshold test and the
 *              row order changes (with the L-shaped pattern the factors then fill completely: storage adopted from the previous factorization has to grow during the refactorization)
 *   scalemode: 0 generic concrete values; bit0 rows / bit1 columns of the concrete part badly scaled (forces equed R / C / B when Equil = YES) */
#include "hcommon.h"
#define MAXSTEP 4

static elem_t Aval0[MAXSTEP][NMAX * NMAX];           /* caller's values before each call */
static dense_t Dorig;                                 /* unscaled matrix of the current factorization (NC interpretation) */

static int digit(long v, int k, int len) { int d[12], c = 0; while (v > 0 && c < 12) { d[c++] = (int)(v % 10); v /= 10; } if (c == 0) return 1; int idx = c - 1 - k; if (idx < 0) idx = 0; return d[idx]; }
static int ndigits(long v) { int c = 0; while (v > 0) { c++; v /= 10; } return c; }

int main(int argc, char **argv) {
  int n = (int)h_arg(argc, argv, 0, 2); h_pat_t pat = argc > 2 ? argv[2] : "0xf";
  int storage = (int)h_arg(argc, argv, 2, 0), colperm = (int)h_arg(argc, argv, 3, 0), permidx = (int)h_arg(argc, argv, 4, 0);
  h_set_tuning((int)h_arg(argc, argv, 5, 1), (int)h_arg(argc, argv, 6, 1), (int)h_arg(argc, argv, 7, 1), (int)h_arg(argc, argv, 8, 1), (int)h_arg(argc, argv, 9, 1), (int)h_arg(argc, argv, 10, 20));
  int umode = (int)h_arg(argc, argv, 11, 0); unsigned symcols = (unsigned)h_arg(argc, argv, 12, -1);
  int nrhs = (int)h_arg(argc, argv, 13, 1), ldb = n + (int)h_arg(argc, argv, 14, 0), ldx = n + (int)h_arg(argc, argv, 22, h_arg(argc, argv, 14, 0));
  long hist = h_arg(argc, argv, 15, 1), transv = h_arg(argc, argv, 16, 1);
  int equil = (int)h_arg(argc, argv, 17, 0), refine = (int)h_arg(argc, argv, 18, 0), cond = (int)h_arg(argc, argv, 19, 0), growth = (int)h_arg(argc, argv, 20, 0), lworkmode = (int)h_arg(argc, argv, 21, 0);
  h_scalemode = (int)h_arg(argc, argv, 23, 0);
  int nsteps = ndigits(hist); if (nsteps > MAXSTEP) nsteps = MAXSTEP;
  if (equil) slusym_input_gap(1);

  symmat_t S; symmat_build_cols(&S, n, n, pat, "a0_", symcols);
  real_t u = 1; if (umode == 1) { u = SYMREAL("u"); slusym_assume_cmp(3, (double)u, 0.0); slusym_assume_cmp(5, (double)u, 1.0); } else if (umode == 2) u = 0.5; else if (umode == 3) u = 0;   /* documented range of DiagPivotThresh is [0,1] */
  int nb = (ldb > ldx ? ldb : ldx) * (nrhs > 0 ? nrhs : 1) + 1;
  elem_t *b = (elem_t *)malloc(sizeof(elem_t) * nb), *b0 = (elem_t *)malloc(sizeof(elem_t) * nb), *x = (elem_t *)malloc(sizeof(elem_t) * nb), *x0 = (elem_t *)malloc(sizeof(elem_t) * nb);
  real_t R[NMAX], C[NMAX], ferr[4], berr[4], rpg = -1, rcond = -1; char equed = 'N';
  int perm_c[NMAX], perm_r[NMAX], etree[NMAX];
  for (int i = 0; i < n; i++) { perm_c[i] = perm_r[i] = etree[i] = -7; R[i] = C[i] = -7; }
  if (colperm == 4) h_kth_perm(n, permidx, perm_c);
  SuperMatrix A, L, U, B, X; superlu_options_t opt; SuperLUStat_t stat; GlobalLU_t Glu; mem_usage_t mu;
  set_default_options(&opt); opt.DiagPivotThresh = (double)u;
  opt.ColPerm = colperm == 0 ? NATURAL : colperm == 1 ? MMD_ATA : colperm == 2 ? MMD_AT_PLUS_A : colperm == 3 ? COLAMD : MY_PERMC;
  opt.Equil = equil ? YES : NO; opt.IterRefine = refine == 0 ? NOREFINE : refine == 1 ? SLU_SINGLE : SLU_DOUBLE; opt.ConditionNumber = cond ? YES : NO; opt.PivotGrowth = growth ? YES : NO;
  if (storage == 0) F(Create_CompCol_Matrix)(&A, n, n, S.nnz, S.val, S.rowind, S.colptr, SLU_NC, SLU_DT, SLU_GE);
  else F(Create_CompRow_Matrix)(&A, n, n, S.nnz, S.val, S.rowind, S.colptr, SLU_NR, SLU_DT, SLU_GE);
  F(Create_Dense_Matrix)(&B, n, nrhs, b, ldb, SLU_DN, SLU_DT, SLU_GE); F(Create_Dense_Matrix)(&X, n, nrhs, x, ldx, SLU_DN, SLU_DT, SLU_GE);
  StatInit(&stat);
  void *work = lworkmode > 0 ? slusym_workspace(lworkmode, 0) : NULL;
  long mark = slusym_heap_mark(); int haveLU = 0; char nm[40];
  static elem_t Lsnap[NMAX * NMAX * 2], Usnap[NMAX * NMAX * 2]; int psnap_r[NMAX], psnap_c[NMAX], esnap[NMAX];

  for (int step = 0; step < nsteps; step++) {
    int f = digit(hist, step, nsteps), tr = digit(transv, step < ndigits(transv) ? step : ndigits(transv) - 1, ndigits(transv));
    opt.Fact = f == 1 ? DOFACT : f == 2 ? SamePattern : f == 3 ? SamePattern_SameRowPerm : FACTORED;
    opt.Trans = tr == 1 ? NOTRANS : tr == 2 ? TRANS : CONJ;
    if (step > 0 && (f == 1 || f == 2) && haveLU) { Destroy_SuperNode_Matrix(&L); Destroy_CompCol_Matrix(&U); haveLU = 0; }   /* documented protocol (EXAMPLE/dlinsolx2.c): the caller releases L, U before a fresh or SamePattern factorization */
    if (step > 0 && f != 4) {   /* new values on the same pattern */
      int_t k = 0; for (int j = 0; j < n; j++) for (int i = 0; i < n; i++) if (S.D.nz[i][j]) { if ((symcols >> j) & 1) { snprintf(nm, sizeof nm, "a%d_%d_%d", step, i, j); S.val[k] = e_sym(nm); }
#if IS_COMPLEX
            else S.val[k] = e_make(h_concrete_value(i, j, n) + (real_t)step / 8, h_concrete_value(j, i, n) / 4);
#else
            else S.val[k] = (h_concrete_value(i, j, n) + (real_t)step / 8) * (real_t)(((h_scalemode & 4) && i == n - 1 && j == 0) ? 64 : 1);
#endif
            k++; }
    }
    if (f != 4) { int_t k = 0; for (int j = 0; j < n; j++) for (int i = 0; i < n; i++) if (S.D.nz[i][j]) { Dorig.a[i][j] = S.val[k]; Dorig.nz[i][j] = 1; k++; } else { Dorig.a[i][j] = e_zero(); Dorig.nz[i][j] = 0; } Dorig.m = Dorig.n = n; }
    for (int_t k = 0; k < S.nnz; k++) Aval0[step][k] = S.val[k];
    for (int j = 0; j < nrhs; j++) { for (int i = 0; i < ldb; i++) { snprintf(nm, sizeof nm, "b%d_%d_%d", step, i, j); b[j * ldb + i] = b0[j * ldb + i] = e_sym(nm); }
      for (int i = 0; i < ldx; i++) { snprintf(nm, sizeof nm, "x%d_%d_%d", step, i, j); x[j * ldx + i] = x0[j * ldx + i] = (i < n) ? e_zero() : e_sym(nm); } }
    char equed_in = equed; real_t Rin[NMAX], Cin[NMAX]; for (int i = 0; i < n; i++) { Rin[i] = R[i]; Cin[i] = C[i]; }
    if (f == 4 && haveLU) { SCformat *Ls = (SCformat *)L.Store; NCformat *Us = (NCformat *)U.Store; for (int_t k = 0; k < Ls->nzval_colptr[n]; k++) Lsnap[k] = ((elem_t *)Ls->nzval)[k]; for (int_t k = 0; k < Us->colptr[n]; k++) Usnap[k] = ((elem_t *)Us->nzval)[k];
      for (int i = 0; i < n; i++) { psnap_r[i] = perm_r[i]; psnap_c[i] = perm_c[i]; esnap[i] = etree[i]; } }
    int_t info = -12345; int lwork = (lworkmode == -1 && step == 0) ? -1 : lworkmode > 0 ? lworkmode : 0;
    F(gssvx)(&opt, &A, perm_c, perm_r, etree, &equed, R, C, &L, &U, work, lwork, &B, &X, &rpg, &rcond, ferr, berr, &Glu, &mu, &stat, &info);
    snprintf(nm, sizeof nm, "info%d", step); slusym_note(nm, (long)info); if (step == nsteps - 1) slusym_note("info", (long)info);
    snprintf(nm, sizeof nm, "equed%d", step); slusym_note(nm, (long)equed);

    if (lwork == -1) {   /* size query: only info / mem_usage may change */
      slusym_assert_true(info > n, "C08.query.info-reports-size");
      int same = 1; for (int_t k = 0; k < S.nnz; k++) if (!e_same(S.val[k], Aval0[step][k])) same = 0; for (int j = 0; j < nrhs; j++) { for (int i = 0; i < ldb; i++) if (!e_same(b[j * ldb + i], b0[j * ldb + i])) same = 0; for (int i = 0; i < ldx; i++) if (!e_same(x[j * ldx + i], x0[j * ldx + i])) same = 0; }
      slusym_assert_true(same, "C08.query.A,B,X.untouched");
      int ps = 1; for (int i = 0; i < n; i++) if (perm_r[i] != -7 || etree[i] != -7 || (colperm != 4 && perm_c[i] != -7) || !slusym_same((double)R[i], -7.0) || !slusym_same((double)C[i], -7.0)) ps = 0;
      slusym_assert_true(ps && equed == 'N', "C08.query.other-arguments.untouched");
      break;
    }
    if (lworkmode > 0) { slusym_workspace_check("C08.workspace.nothing-written-outside"); if (info > n + 1) { slusym_note("shortage", 1); if (haveLU) { Destroy_SuperMatrix_Store(&L); Destroy_SuperMatrix_Store(&U); } haveLU = 0; break; } }
    slusym_assert_true(info >= 0 && info <= n + 1, "C05.info.range");
    int rowequ = equed == 'R' || equed == 'B', colequ = equed == 'C' || equed == 'B';
    slusym_assert_true(equed == 'N' || equed == 'R' || equed == 'C' || equed == 'B', "C05.equed.letter");
    if (!equil && f != 4) slusym_assert_true(equed == 'N', "C05.noequil.equed=N");
    if (f == 4) slusym_assert_true(equed == equed_in, "C06.factored.equed.kept");
    if (f != 4 && info >= 0 && info <= n + 1) haveLU = 1;
    if (f != 4 && haveLU) { snprintf(nm, sizeof nm, "nnzLU%d", step); slusym_note(nm, (long)(((SCformat *)L.Store)->nnz + ((NCformat *)U.Store)->nnz)); snprintf(nm, sizeof nm, "expansions%d", step); slusym_note(nm, (long)stat.expansions); }
    /* A on exit = diag(R)^rowequ * A_in * diag(C)^colequ for a fresh factorization with equilibration; untouched otherwise */
    { int_t k = 0; for (int j = 0; j < n; j++) for (int i = 0; i < n; i++) if (S.D.nz[i][j]) { elem_t v0 = Aval0[step][k];
          if (f == 4 || (!rowequ && !colequ)) e_assert_same(S.val[k], v0, "C05.A.unchanged-when-not-scaled");
          else { elem_t e = v0; if (rowequ) e = e_scale(e, R[i]); if (colequ) e = e_scale(e, C[j]); e_assert_zero(e_sub(S.val[k], e), (double)e_abs1(e), "C05.A.scaled-as-equed-says"); }
          slusym_assert_true(S.rowind[k] == i, "C05.A.indices.unchanged"); k++; } }
    if (rowequ) for (int i = 0; i < n; i++) slusym_assert_cmp(2, (double)R[i], 0.0, 1.0, "C05.R.positive");
    if (colequ) for (int i = 0; i < n; i++) slusym_assert_cmp(2, (double)C[i], 0.0, 1.0, "C05.C.positive");
    if (f == 4) for (int i = 0; i < n; i++) { slusym_assert_same((double)R[i], (double)Rin[i], "C06.factored.R.kept"); slusym_assert_same((double)C[i], (double)Cin[i], "C06.factored.C.kept"); }
    if (info > 0 && info <= n) { /* singular: no solve, B untouched */
      for (int j = 0; j < nrhs; j++) for (int i = 0; i < ldb; i++) e_assert_same(b[j * ldb + i], b0[j * ldb + i], "C04.expert.B.untouched");
      /* growth factor of the leading info columns: min(1/safmin, min_j max|A_j| / max|U_j|), a zero U column counting as 1 */
      { dense_t DLs, DUs; int ipc[NMAX]; if (f != 4 && h_is_perm(perm_c, n) && h_extract_LU(&L, &U, n, n, &DLs, &DUs)) { for (int j = 0; j < n; j++) ipc[perm_c[j]] = j;
          real_t cap = (real_t)1 / RMACH("S"); real_t prod = rpg - cap; slusym_assert_cmp(5, (double)rpg, (double)cap, 1.0, "C12.growth.singular.leading-columns");
          for (int j = 0; j < (int)info; j++) { real_t ma = 0, mu_ = 0; int oc = ipc[j]; for (int i = 0; i < n; i++) if (Dorig.nz[i][oc]) { elem_t e = Dorig.a[i][oc]; if (rowequ) e = e_scale(e, R[i]); if (colequ) e = e_scale(e, C[oc]); real_t t = e_abs1(e); ma = t > ma ? t : ma; }
            for (int i = 0; i <= j; i++) if (DUs.nz[i][j]) { real_t t2 = e_abs1(DUs.a[i][j]); mu_ = t2 > mu_ ? t2 : mu_; }
            if (slusym_entails_zero((double)mu_)) { slusym_assert_cmp(5, (double)rpg, 1.0, 1.0, "C12.growth.singular.leading-columns"); prod = prod * (rpg - 1); }
            else { slusym_assert_cmp(5, (double)(rpg * mu_), (double)ma, 1.0, "C12.growth.singular.leading-columns"); prod = prod * (rpg * mu_ - ma); } }
          slusym_assert_zero((double)prod, 1.0, "C12.growth.singular.attained"); } }
      break; }
    int effnotran = storage == 0 ? (tr == 1) : (tr != 1);     /* orientation seen by the column-compressed store */
    /* B on exit: scaled by the matching factor only */
    for (int j = 0; j < nrhs; j++) for (int i = 0; i < ldb; i++) { elem_t e = b0[j * ldb + i]; int scaled = 0;
        if (i < n && effnotran && rowequ) { e = e_scale(e, R[i]); scaled = 1; } else if (i < n && !effnotran && colequ) { e = e_scale(e, C[i]); scaled = 1; }
        if (scaled) e_assert_zero(e_sub(b[j * ldb + i], e), (double)e_abs1(e), "C05.B.scaled-by-matching-factor"); else e_assert_same(b[j * ldb + i], b0[j * ldb + i], "C05.B.unchanged-when-not-scaled"); }
    /* op(A_user) X = B0 for the caller's original (unscaled) matrix: A_user = Dorig (NC) or Dorig^T (NR) */
    for (int j = 0; j < nrhs; j++) { for (int i = 0; i < n; i++) { elem_t s = e_zero(); real_t sc = e_abs1(b0[j * ldb + i]);
        for (int k = 0; k < n; k++) { int tflag = (tr != 1) ^ (storage == 1);   /* use Dorig^T ? */
          int nz = tflag ? Dorig.nz[k][i] : Dorig.nz[i][k]; if (!nz) continue; elem_t aik = tflag ? Dorig.a[k][i] : Dorig.a[i][k]; if (tr == 3) aik = e_conj(aik);
          elem_t t = e_mul(aik, x[j * ldx + k]); s = e_add(s, t); sc += e_abs1(t); }
        e_assert_zero(e_sub(s, b0[j * ldb + i]), (double)sc, f == 4 ? "C06.resolve.op(A)X=B" : f == 1 ? "C05.op(A)X=B" : "C06.refactor.op(A)X=B"); }
      for (int i = n; i < ldx; i++) e_assert_same(x[j * ldx + i], x0[j * ldx + i], "C05.X.padding.untouched"); }
    if (refine == 0) for (int j = 0; j < nrhs; j++) { slusym_assert_same((double)ferr[j], 1.0, "C13.norefine.ferr=1"); slusym_assert_same((double)berr[j], 1.0, "C13.norefine.berr=1"); }
    else for (int j = 0; j < nrhs; j++) { slusym_assert_cmp(3, (double)ferr[j], 0.0, 1.0, "C13.ferr.nonnegative"); slusym_assert_cmp(3, (double)berr[j], 0.0, 1.0, "C13.berr.nonnegative"); slusym_assert_true(stat.RefineSteps <= 5, "C13.at-most-5-steps"); }
    if (cond) { slusym_assert_cmp(5, (double)rcond, 1.0, 1.0, "C12.rcond.le.1"); slusym_assert_cmp(3, (double)rcond, 0.0, 1.0, "C12.rcond.ge.0");
      real_t eps = (sizeof(real_t) == 8) ? (real_t)1.1102230246251565e-16 : (real_t)5.9604644775390625e-08;
      if (info == n + 1) slusym_assert_cmp(4, (double)rcond, (double)eps, 1.0, "C12.warning.iff.rcond<eps"); else slusym_assert_cmp(3, (double)rcond, (double)eps, 1.0, "C12.warning.iff.rcond<eps"); }
    else slusym_assert_true(info != n + 1, "C12.no-warning-without-estimate");
#if !IS_COMPLEX
    if (cond && n <= 3 && f != 4 && symcols == 0) { /* (concrete A: exact rational check) rcond must not fall below 1/(||M|| ||M^-1||) of the factored matrix M (user orientation), 1-norm for NOTRANS else infinity norm */
      elem_t M[NMAX][NMAX], Inv[NMAX][NMAX], sub[NMAX][NMAX];
      for (int i = 0; i < n; i++) for (int j = 0; j < n; j++) { elem_t e = Dorig.a[i][j]; if (rowequ) e = e_scale(e, R[i]); if (colequ) e = e_scale(e, C[j]); if (storage == 0) M[i][j] = e; else M[j][i] = e; }
      elem_t det = h_det(n, M);
      for (int i = 0; i < n; i++) for (int j = 0; j < n; j++) { int r2 = 0; for (int a = 0; a < n; a++) { if (a == j) continue; int c2 = 0; for (int bb = 0; bb < n; bb++) { if (bb == i) continue; sub[r2][c2++] = M[a][bb]; } r2++; } elem_t cof = h_det(n - 1, sub); Inv[i][j] = ((i + j) & 1) ? -cof : cof; }   /* adjugate; M^-1 = Inv/det */
      int one = (tr == 1); real_t nm = 0, ni = 0;
      for (int k = 0; k < n; k++) { real_t sm = 0, si = 0; for (int l = 0; l < n; l++) { sm += e_abs1(one ? M[l][k] : M[k][l]); si += e_abs1(one ? Inv[l][k] : Inv[k][l]); } nm = sm > nm ? sm : nm; ni = si > ni ? si : ni; }
      slusym_assert_cmp(3, (double)(rcond * nm * ni), (double)e_abs1(det), 1.0, "C12.rcond.not-below-true-value"); }
#endif
    /* factors of this step: structure + identity against the (scaled) matrix that was factored */
    if (f != 4) { dense_t DL, DU, Bp, As; dense_clear(&As, n, n);
      for (int i = 0; i < n; i++) for (int j = 0; j < n; j++) if (Dorig.nz[i][j]) { elem_t e = Dorig.a[i][j]; if (rowequ) e = e_scale(e, R[i]); if (colequ) e = e_scale(e, C[j]); As.a[i][j] = e; As.nz[i][j] = 1; }
      int pok = h_is_perm(perm_r, n) && h_is_perm(perm_c, n); slusym_assert_true(pok, "C06.perms.bijections");
      if (pok && h_validate_LU(&L, &U, n, n, 0, &DL, &DU, "C06.struct")) { h_permuted(&As, perm_r, perm_c, &Bp); h_assert_LU_eq(&DL, &DU, &Bp, n, n, f == 1 ? "C05.LU=Pr(RAC)Pc" : "C06.LU=Pr(RAC)Pc");
        for (int j = 0; j < n; j++) e_assert_nonzero(DU.a[j][j], "C06.Udiag.nonzero");
        { int ipc[NMAX]; for (int j = 0; j < n; j++) ipc[perm_c[j]] = j; h_assert_pivot_bounds(&DL, &DU, &Bp, n, n, u, perm_r, ipc, f != 3, "C06.multiplier.bound", "C06.diagonal.preference"); }
        if (growth) { /* reciprocal pivot growth = min(1/safmin, min_j max_i|A(:,j)| / max_i|U(:,j)|) over the factored (scaled, column-permuted) matrix */
          real_t cap = (real_t)1 / RMACH("S"); real_t prod = rpg - cap; slusym_assert_cmp(5, (double)rpg, (double)cap, 1.0, "C12.growth.is-min-over-columns");
          for (int j = 0; j < n; j++) { real_t ma = 0, mu_ = 0; for (int i = 0; i < n; i++) { real_t t = e_abs1(Bp.a[i][j]); ma = t > ma ? t : ma; if (i <= j) { real_t t2 = e_abs1(DU.a[i][j]); mu_ = t2 > mu_ ? t2 : mu_; } }
            slusym_assert_cmp(5, (double)(rpg * mu_), (double)ma, 1.0, "C12.growth.is-min-over-columns"); prod = prod * (rpg * mu_ - ma); }
          slusym_assert_zero((double)prod, 1.0, "C12.growth.attained"); } }
    } else if (haveLU) { SCformat *Ls = (SCformat *)L.Store; NCformat *Us = (NCformat *)U.Store; int same = 1;
      for (int_t k = 0; k < Ls->nzval_colptr[n]; k++) if (!e_same(Lsnap[k], ((elem_t *)Ls->nzval)[k])) same = 0; for (int_t k = 0; k < Us->colptr[n]; k++) if (!e_same(Usnap[k], ((elem_t *)Us->nzval)[k])) same = 0;
      for (int i = 0; i < n; i++) if (psnap_r[i] != perm_r[i] || psnap_c[i] != perm_c[i] || esnap[i] != etree[i]) same = 0;
      slusym_assert_true(same, "C06.resolve.never-alters-factors"); }
  }
  if (haveLU) { if (lworkmode > 0) { Destroy_SuperMatrix_Store(&L); Destroy_SuperMatrix_Store(&U); } else { Destroy_SuperNode_Matrix(&L); Destroy_CompCol_Matrix(&U); } }
  slusym_heap_assert_clean(mark, "C19.gssvx.no-leak");
  StatFree(&stat);
  slusym_done();
  return 0;
}
