/* h_ilu.c — C15: incomplete LU driver ?gsisx never breaks down and X is exactly the preconditioner solve defined by the returned factors.
 * args: n pattern colperm permidx panel relax maxsuper rowblk colblk fill symcols milu droprule rowperm trans dropmode nrhs tinymask
 *   milu 0 SILU 1 SMILU_1 2 SMILU_2 3 SMILU_3;  rowperm 0 NOROWPERM 1 LargeDiag_MC64;  trans 0 N 1 T
 *   dropmode 0: defaults (tol 1e-4, fill 10)  1: dropping disabled (NODROP, tol 0)  2: aggressive (tol 0.5, fill 1, rule as given) */
#include "hcommon.h"
int main(int argc, char **argv) {
  int n = (int)h_arg(argc, argv, 0, 2); h_pat_t pat = argc > 2 ? argv[2] : "0xf"; int colperm = (int)h_arg(argc, argv, 2, 0), permidx = (int)h_arg(argc, argv, 3, 0);
  h_set_tuning((int)h_arg(argc, argv, 4, 1), (int)h_arg(argc, argv, 5, 1), (int)h_arg(argc, argv, 6, 1), (int)h_arg(argc, argv, 7, 1), (int)h_arg(argc, argv, 8, 1), (int)h_arg(argc, argv, 9, 20));
  unsigned symcols = (unsigned)h_arg(argc, argv, 10, -1); int milu = (int)h_arg(argc, argv, 11, 0), droprule = (int)h_arg(argc, argv, 12, 9), rowperm = (int)h_arg(argc, argv, 13, 0), tcode = (int)h_arg(argc, argv, 14, 0), dropmode = (int)h_arg(argc, argv, 15, 0), nrhs = (int)h_arg(argc, argv, 16, 1);
  unsigned tinymask = (unsigned)h_arg(argc, argv, 17, 0);   /* bit c: the sub-diagonal entry (c+1, c) -- or, when that is not stored, (c+2, c) -- of a concrete column c is made tiny (2^-40 times its generic value): dropped by the default rule */
  int tiny_r = (int)h_arg(argc, argv, 18, -1), tiny_c = (int)h_arg(argc, argv, 19, -1);   /* alternatively: one explicit entry (tiny_r, tiny_c) made tiny */
  symmat_t S; symmat_build_cols(&S, n, n, pat, "a", symcols); char nm[32];
  if (tiny_r >= 0) { int_t k = 0; for (int j = 0; j < n; j++) for (int i = 0; i < n; i++) if (S.D.nz[i][j]) { if (i == tiny_r && j == tiny_c && !((symcols >> j) & 1)) { S.val[k] = e_scale(S.val[k], (real_t)(1.0 / 1099511627776.0)); S.D.a[i][j] = S.val[k]; } k++; } }
  if (tinymask) { int_t k = 0; for (int j = 0; j < n; j++) for (int i = 0; i < n; i++) if (S.D.nz[i][j]) { if (((i == j + 1) || (i == j + 2 && !S.D.nz[j + 1][j])) && ((tinymask >> j) & 1) && !((symcols >> j) & 1)) { S.val[k] = e_scale(S.val[k], (real_t)(1.0 / 1099511627776.0)); S.D.a[i][j] = S.val[k]; } k++; } }
  elem_t v0[NMAX * NMAX]; int_t r0[NMAX * NMAX]; for (int_t k = 0; k < S.nnz; k++) { v0[k] = S.val[k]; r0[k] = S.rowind[k]; }
  elem_t *b = (elem_t *)malloc(sizeof(elem_t) * (n * nrhs + 1)), *b0 = (elem_t *)malloc(sizeof(elem_t) * (n * nrhs + 1)), *x = (elem_t *)malloc(sizeof(elem_t) * (n * nrhs + 1));
  for (int i = 0; i < n * nrhs; i++) { snprintf(nm, sizeof nm, "b%d", i); b[i] = b0[i] = e_sym(nm); x[i] = e_zero(); }
  SuperMatrix A, B, X, L, U; superlu_options_t opt; SuperLUStat_t stat; GlobalLU_t Glu; mem_usage_t mu; int perm_c[NMAX], perm_r[NMAX], etree[NMAX]; real_t R[NMAX], C[NMAX], rpg, rcond; char equed = 'N'; int_t info = -1;
  ilu_set_default_options(&opt); opt.ColPerm = colperm == 4 ? MY_PERMC : (colperm_t)colperm; if (colperm == 4) h_kth_perm(n, permidx, perm_c);
  opt.ILU_MILU = (milu_t)milu; opt.RowPerm = rowperm ? LargeDiag_MC64 : NOROWPERM; opt.Trans = tcode ? TRANS : NOTRANS; opt.ConditionNumber = NO; opt.PivotGrowth = NO; opt.ILU_DropRule = droprule;
  if (dropmode == 1) { opt.ILU_DropRule = NODROP; opt.ILU_DropTol = 0; } else if (dropmode == 2) { opt.ILU_DropTol = 0.5; opt.ILU_FillFactor = 1.0; }
  F(Create_CompCol_Matrix)(&A, n, n, S.nnz, S.val, S.rowind, S.colptr, SLU_NC, SLU_DT, SLU_GE); F(Create_Dense_Matrix)(&B, n, nrhs, b, n, SLU_DN, SLU_DT, SLU_GE); F(Create_Dense_Matrix)(&X, n, nrhs, x, n, SLU_DN, SLU_DT, SLU_GE);
  StatInit(&stat); long mark = slusym_heap_mark();
  F(gsisx)(&opt, &A, perm_c, perm_r, etree, &equed, R, C, &L, &U, NULL, 0, &B, &X, &rpg, &rcond, &Glu, &mu, &stat, &info);
  slusym_note("info", (long)info); slusym_note("equed", (long)equed);
  slusym_assert_true(info >= 0 && info <= n, "C15.completes.0<=info<=n");
  int rowequ = equed == 'R' || equed == 'B', colequ = equed == 'C' || equed == 'B';
  { int ok = 1; for (int_t k = 0; k < S.nnz; k++) if (S.rowind[k] != r0[k]) ok = 0; slusym_assert_true(ok, "C15.A.row-indices.restored"); }
  { int_t k = 0; for (int j = 0; j < n; j++) for (int i = 0; i < n; i++) if (S.D.nz[i][j]) { elem_t e = v0[k]; if (rowequ) e = e_scale(e, R[i]); if (colequ) e = e_scale(e, C[j]);
        if (!rowequ && !colequ) e_assert_same(S.val[k], v0[k], "C15.A.values.as-documented"); else e_assert_zero(e_sub(S.val[k], e), (double)e_abs1(e), "C15.A.values.as-documented"); k++; } }
  if (info >= 0 && info <= n) {
    int pok = h_is_perm(perm_r, n) && h_is_perm(perm_c, n); slusym_assert_true(pok, "C15.perms.bijections");
    dense_t DL, DU;
    if (pok && h_validate_LU(&L, &U, n, n, 1, &DL, &DU, "C15.struct")) {
      for (int j = 0; j < n; j++) e_assert_nonzero(DU.a[j][j], "C15.Udiag.nonzero");
      /* X = preconditioner solve with the returned factors, permutations and scalings */
      for (int c = 0; c < nrhs; c++) { elem_t z[NMAX], w[NMAX];
        if (!tcode) { for (int i = 0; i < n; i++) { elem_t e = b0[c * n + i]; if (rowequ) e = e_scale(e, R[i]); z[perm_r[i]] = e; }
          for (int i = 0; i < n; i++) { elem_t s = z[i]; for (int k = 0; k < i; k++) if (DL.nz[i][k]) s = e_sub(s, e_mul(DL.a[i][k], w[k])); w[i] = s; }                      /* L w = z (unit diagonal) */
          for (int i = 0; i < n; i++) { elem_t chk = e_zero(); (void)chk; }
          /* U y = w is verified as an identity instead of dividing: y_k := X(perm_c^-1 ...)/C */
          elem_t y[NMAX]; for (int i = 0; i < n; i++) { y[perm_c[i]] = x[c * n + i]; }        /* x_i = C_i * y[perm_c[i]]  =>  compare C_i*y with x below */
          for (int i = 0; i < n; i++) { elem_t s = e_zero(); real_t sc = e_abs1(w[i]); for (int k = i; k < n; k++) if (DU.nz[i][k]) { elem_t yk = y[k]; int oi = -1; for (int q = 0; q < n; q++) if (perm_c[q] == k) oi = q;
                /* y[k] holds x[oi] = C[oi]*ytrue[k]; use U(i,k)*x[oi] = U(i,k)*C[oi]*ytrue[k] */ elem_t uk = DU.a[i][k]; if (colequ) uk = uk; elem_t t = e_mul(uk, yk); (void)oi; s = e_add(s, t); sc += e_abs1(t); }
            if (!colequ) e_assert_zero(e_sub(s, w[i]), (double)sc, "C15.X.is-the-preconditioner-solve"); }
          if (colequ) { /* with column scaling: sum_k U(i,k) * x[oi(k)] / C[oi(k)] = w_i ; multiply through is not linear per row, so check by substitution */
            for (int i = 0; i < n; i++) { elem_t s = e_zero(); real_t sc = e_abs1(w[i]); int bad = 0; for (int k = i; k < n; k++) if (DU.nz[i][k]) { int oi = -1; for (int q = 0; q < n; q++) if (perm_c[q] == k) oi = q; elem_t t = e_mul(DU.a[i][k], e_scale(x[c * n + oi], (real_t)1 / C[oi])); s = e_add(s, t); sc += e_abs1(t); (void)bad; }
              e_assert_zero(e_sub(s, w[i]), (double)sc, "C15.X.is-the-preconditioner-solve"); } }
        } else { for (int j = 0; j < n; j++) { elem_t e = b0[c * n + j]; if (colequ) e = e_scale(e, C[j]); z[perm_c[j]] = e; }
          for (int i = 0; i < n; i++) { elem_t s = z[i]; real_t sc = e_abs1(z[i]); (void)sc; w[i] = s; }
          /* U' v = z, L' y = v, x_i = R_i * y[perm_r[i]] : verify U'(L' y) = z with y recovered from X */
          elem_t y[NMAX]; for (int i = 0; i < n; i++) y[perm_r[i]] = rowequ ? e_scale(x[c * n + i], (real_t)1 / R[i]) : x[c * n + i];
          elem_t v[NMAX]; for (int i = 0; i < n; i++) { elem_t s = y[i]; for (int k = i + 1; k < n; k++) if (DL.nz[k][i]) s = e_add(s, e_mul(DL.a[k][i], y[k])); v[i] = s; }   /* v = L' y */
          for (int i = 0; i < n; i++) { elem_t s = e_zero(); real_t sc = e_abs1(z[i]); for (int k = 0; k <= i; k++) if (DU.nz[k][i]) { elem_t t = e_mul(DU.a[k][i], v[k]); s = e_add(s, t); sc += e_abs1(t); } e_assert_zero(e_sub(s, z[i]), (double)sc, "C15.X.is-the-preconditioner-solve"); } }
      }
      if (dropmode == 1 && info == 0) { dense_t As, Bp; dense_clear(&As, n, n); for (int i = 0; i < n; i++) for (int j = 0; j < n; j++) if (S.D.nz[i][j]) { elem_t e = S.D.a[i][j]; if (rowequ) e = e_scale(e, R[i]); if (colequ) e = e_scale(e, C[j]); As.a[i][j] = e; As.nz[i][j] = 1; }
        h_permuted(&As, perm_r, perm_c, &Bp); h_assert_LU_eq(&DL, &DU, &Bp, n, n, "C15.nodrop.LU=Pr(RAC)Pc"); }
    }
    Destroy_SuperNode_Matrix(&L); Destroy_CompCol_Matrix(&U);
  }
  slusym_heap_assert_clean(mark, "C19.gsisx.no-leak");
  StatFree(&stat); slusym_done(); return 0;
}
