/* hcommon.h — shared code of the E2 harnesses: precision layer, symbolic matrices, dense reconstruction of
 * the supernodal factors (following supermatrix.h literally), structure validator (C03), permutation helpers. */
#ifndef HCOMMON_H
#define HCOMMON_H
#include <stdio.h>
#include <stdlib.h>
#include <string.h>
#include <math.h>
#include "slusym.h"

#if defined(PREC_D)
#include "slu_ddefs.h"
typedef double real_t; typedef double elem_t;
#define PX d
#define RMACH dmach
#define IS_COMPLEX 0
#define SLU_DT SLU_D
#define SYMREAL(nm) slusym_real(nm)
#elif defined(PREC_S)
#include "slu_sdefs.h"
typedef float real_t; typedef float elem_t;
#define PX s
#define RMACH smach
#define IS_COMPLEX 0
#define SLU_DT SLU_S
#define SYMREAL(nm) ((float)slusym_real_f(nm))
#elif defined(PREC_Z)
#include "slu_zdefs.h"
typedef double real_t; typedef doublecomplex elem_t;
#define PX z
#define RMACH dmach
#define IS_COMPLEX 1
#define SLU_DT SLU_Z
#define SYMREAL(nm) slusym_real(nm)
#elif defined(PREC_C)
#include "slu_cdefs.h"
typedef float real_t; typedef singlecomplex elem_t;
#define PX c
#define RMACH smach
#define IS_COMPLEX 1
#define SLU_DT SLU_C
#define SYMREAL(nm) ((float)slusym_real_f(nm))
#else
#error "define PREC_D/S/Z/C"
#endif
#define CAT_(a, b) a##b
#define CAT(a, b) CAT_(a, b)
#define F(name) CAT(PX, name)                 /* F(gstrf) -> dgstrf */
#define SPF(name) CAT(CAT(sp_, PX), name)     /* SPF(trsv) -> sp_dtrsv */
#define ILUF(name) CAT(CAT(ilu_, PX), name)

#define NMAX 12

/* ------------------------------------------------------------------ tuning via the library's documented sp_ienv hook */
static int h_tune[8] = {0, 1, 1, 1, 1, 1, 20, 1};   /* [1] panel [2] relax [3] maxsuper [4] rowblk [5] colblk [6] fill [7] ilu maxsuper */
int sp_ienv(int ispec) { if (ispec >= 1 && ispec <= 7) return h_tune[ispec]; return 0; }

/* ------------------------------------------------------------------ element layer */
#if IS_COMPLEX
static elem_t e_make(real_t r, real_t i) { elem_t e; e.r = r; e.i = i; return e; }
static elem_t e_zero(void) { return e_make(0, 0); }
static elem_t e_one(void) { return e_make(1, 0); }
static elem_t e_sym(const char *nm) { char b[40]; elem_t e; snprintf(b, sizeof b, "%sr", nm); e.r = SYMREAL(b); snprintf(b, sizeof b, "%si", nm); e.i = SYMREAL(b); return e; }
static elem_t e_add(elem_t a, elem_t b) { return e_make(a.r + b.r, a.i + b.i); }
static elem_t e_sub(elem_t a, elem_t b) { return e_make(a.r - b.r, a.i - b.i); }
static elem_t e_mul(elem_t a, elem_t b) { return e_make(a.r * b.r - a.i * b.i, a.r * b.i + a.i * b.r); }
static elem_t e_conj(elem_t a) { return e_make(a.r, -a.i); }
static elem_t e_scale(elem_t a, real_t s) { return e_make(a.r * s, a.i * s); }
static real_t e_abs1(elem_t a) { return (real_t)(fabs((double)a.r) + fabs((double)a.i)); }
static void e_assert_zero(elem_t a, double scale, const char *id) { slusym_assert_zero((double)a.r, scale, id); slusym_assert_zero((double)a.i, scale, id); }
static void e_assert_nonzero(elem_t a, const char *id) { slusym_assert_or2(6, (double)a.r, 0.0, 6, (double)a.i, 0.0, id); }
/* |re|+|im| <= c  <=>  the four signed sums are <= c (keeps the obligation free of ite terms) */
static void e_assert_abs1_le(elem_t a, real_t w, real_t c, const char *id) { slusym_assert_cmp(5, (double)((a.r + a.i) * w), (double)c, 1.0, id); slusym_assert_cmp(5, (double)((a.r - a.i) * w), (double)c, 1.0, id);
  slusym_assert_cmp(5, (double)((-a.r + a.i) * w), (double)c, 1.0, id); slusym_assert_cmp(5, (double)((-a.r - a.i) * w), (double)c, 1.0, id); }
static void e_assert_same(elem_t a, elem_t b, const char *id) { slusym_assert_same((double)a.r, (double)b.r, id); slusym_assert_same((double)a.i, (double)b.i, id); }
static int e_same(elem_t a, elem_t b) { return slusym_same((double)a.r, (double)b.r) && slusym_same((double)a.i, (double)b.i); }
static int e_entails_zero(elem_t a) { return slusym_entails_zero((double)a.r) && slusym_entails_zero((double)a.i); }
static int e_is_concrete_zero(elem_t a) { return slusym_same((double)a.r, 0.0) && slusym_same((double)a.i, 0.0); }
#else
static elem_t e_zero(void) { return 0; }
static elem_t e_one(void) { return 1; }
static elem_t e_sym(const char *nm) { return SYMREAL(nm); }
static elem_t e_add(elem_t a, elem_t b) { return a + b; }
static elem_t e_sub(elem_t a, elem_t b) { return a - b; }
static elem_t e_mul(elem_t a, elem_t b) { return a * b; }
static elem_t e_conj(elem_t a) { return a; }
static elem_t e_scale(elem_t a, real_t s) { return a * s; }
static real_t e_abs1(elem_t a) { return (real_t)fabs((double)a); }
static void e_assert_zero(elem_t a, double scale, const char *id) { slusym_assert_zero((double)a, scale, id); }
static void e_assert_nonzero(elem_t a, const char *id) { slusym_assert_nonzero((double)a, id); }
static void e_assert_abs1_le(elem_t a, real_t w, real_t c, const char *id) { slusym_assert_cmp(5, (double)(a * w), (double)c, 1.0, id); slusym_assert_cmp(5, (double)(-a * w), (double)c, 1.0, id); }
static void e_assert_same(elem_t a, elem_t b, const char *id) { slusym_assert_same((double)a, (double)b, id); }
static int e_same(elem_t a, elem_t b) { return slusym_same((double)a, (double)b); }
static int e_entails_zero(elem_t a) { return slusym_entails_zero((double)a); }
static int e_is_concrete_zero(elem_t a) { return slusym_same((double)a, 0.0); }
#endif

typedef struct { int m, n; elem_t a[NMAX][NMAX]; unsigned char nz[NMAX][NMAX]; } dense_t;
static void dense_clear(dense_t *D, int m, int n) { D->m = m; D->n = n; for (int i = 0; i < NMAX; i++) for (int j = 0; j < NMAX; j++) { D->a[i][j] = e_zero(); D->nz[i][j] = 0; } }

/* ------------------------------------------------------------------ symbolic CSC matrix from a pattern bitmask (bit j*m+i) */
typedef struct { int m, n; int_t nnz; elem_t *val; int_t *rowind; int_t *colptr; dense_t D; } symmat_t;
/* pattern = arbitrary-size bitmask given as a hex string ("0x1ff"): bit j*m+i set <=> entry (i,j) stored */
typedef const char *h_pat_t;
static int h_patbit(h_pat_t pat, int m, int i, int j) { const char *s = pat; if (s[0] == '0' && (s[1] == 'x' || s[1] == 'X')) s += 2; int len = (int)strlen(s); int bit = j * m + i; int d = bit / 4; if (d >= len) return 0;
  char c = s[len - 1 - d]; int v = (c >= '0' && c <= '9') ? c - '0' : (c >= 'a' && c <= 'f') ? c - 'a' + 10 : (c >= 'A' && c <= 'F') ? c - 'A' + 10 : 0; return (v >> (bit % 4)) & 1; }
/* symcols: bitmask of columns whose entries are symbolic; the other columns get fixed generic concrete values (distinct magnitudes, dominant diagonal) */
static int h_scalemode = 0;   /* bit0: row i of the generic concrete matrix is scaled by 2^(-14 i); bit1: column j by 2^(-14 j) -- badly scaled on purpose, so that equilibration really happens (equed R / C / B) */
static real_t h_concrete_value_(int i, int j, int n);
static real_t h_concrete_value(int i, int j, int n) { real_t v = h_concrete_value_(i, j, n); if (h_scalemode & 1) for (int k = 0; k < i; k++) v *= (real_t)(1.0 / 16384.0); if (h_scalemode & 2) for (int k = 0; k < j; k++) v *= (real_t)(1.0 / 16384.0); return v; }
static real_t h_concrete_value_(int i, int j, int n) { static const int pr[] = {3, 5, 7, 11, 13, 17, 19, 23, 29, 31, 37, 41}; int k = (i * 5 + j * 3) % 12; real_t v = (real_t)pr[k] / (real_t)(16 + ((i + 2 * j) % 7)); if ((i + j) & 1) v = -v; if (i == j) v = (real_t)(4 * n + i + 1); return v; }
/* h_rowscramble: the rows of the (square) pattern / generic matrix are stored in scrambled order, row r of the stored matrix being row (r * s) mod n of the described one (s coprime to n):
   the dominant entries -- hence the pivots -- are then far from the diagonal and the pivot rows of neighbouring columns are not neighbouring rows */
static int h_rowscramble = 0;
static int h_srcrow(int r, int m, int n) { if (!h_rowscramble || m != n || n < 3) return r; int s = 2; for (;; s++) { int a = s, b = n; while (b) { int t = a % b; a = b; b = t; } if (a == 1) break; } return (r * s) % n; }
static void symmat_build_cols(symmat_t *S, int m, int n, h_pat_t pat, const char *pfx, unsigned symcols) {
  S->m = m; S->n = n; S->val = (elem_t *)malloc(sizeof(elem_t) * (m * n + 1)); S->rowind = (int_t *)malloc(sizeof(int_t) * (m * n + 1)); S->colptr = (int_t *)malloc(sizeof(int_t) * (n + 1));
  dense_clear(&S->D, m, n); int_t k = 0; char nm[32];
  for (int j = 0; j < n; j++) { S->colptr[j] = k; for (int i = 0; i < m; i++) if (h_patbit(pat, m, h_srcrow(i, m, n), j)) { snprintf(nm, sizeof nm, "%s%d_%d", pfx, i, j);
        if ((symcols >> j) & 1) S->val[k] = e_sym(nm);
        else {
#if IS_COMPLEX
          S->val[k] = e_make(h_concrete_value(h_srcrow(i, m, n), j, n), h_concrete_value(j, h_srcrow(i, m, n), n) / 4);
#else
          S->val[k] = h_concrete_value(h_srcrow(i, m, n), j, n);
#endif
        }
        S->rowind[k] = i; S->D.a[i][j] = S->val[k]; S->D.nz[i][j] = 1; k++; } }
  S->colptr[n] = k; S->nnz = k;
}
static void symmat_build(symmat_t *S, int m, int n, h_pat_t pat, const char *pfx) { symmat_build_cols(S, m, n, pat, pfx, ~0u); }
static void symmat_free(symmat_t *S) { free(S->val); free(S->rowind); free(S->colptr); }
/* assume strict column diagonal dominance: |a_jj| > sum_{i != j} |a_ij| (single pivot path; preserved by elimination) */
static void symmat_assume_coldom(symmat_t *S) {
  for (int j = 0; j < S->n; j++) { real_t s = 0; for (int i = 0; i < S->m; i++) if (i != j && S->D.nz[i][j]) s += e_abs1(S->D.a[i][j]); slusym_assume_cmp(2, (double)e_abs1(S->D.a[j][j]), (double)s); }
}

/* k-th permutation of 0..n-1 in lexicographic order */
static void h_kth_perm(int n, int k, int *p) { int avail[NMAX + 1]; int cnt = n; long f = 1; for (int i = 0; i < n; i++) avail[i] = i; for (int i = 2; i < n; i++) f *= i;
  for (int i = 0; i < n; i++) { int idx = (int)(k / f); k = (int)(k % f); p[i] = avail[idx]; for (int t = idx; t + 1 < cnt; t++) avail[t] = avail[t + 1]; cnt--; if (cnt > 1) f /= cnt; else f = 1; } }
static int h_is_perm(const int *p, int n) { int seen[NMAX + 2] = {0}; for (int i = 0; i < n; i++) { if (p[i] < 0 || p[i] >= n || seen[p[i]]) return 0; seen[p[i]] = 1; } return 1; }

/* ------------------------------------------------------------------ C03 structure validator; fills dense L (unit diag) and U */
static int h_struct_ok;   /* set to 0 by validator on the first failed clause */
#define SCHK(cond, id) do { int c__ = (cond); slusym_assert_true(c__, id); if (!c__) { h_struct_ok = 0; return 0; } } while (0)
static int h_validate_LU(SuperMatrix *L, SuperMatrix *U, int m, int n, int ilu, dense_t *DL, dense_t *DU, const char *pfx) {
  char id[64]; h_struct_ok = 1;
#define ID(s) (snprintf(id, sizeof id, "%s.%s", pfx, s), id)
  SCHK(L->Stype == SLU_SC && L->Dtype == SLU_DT && L->Mtype == SLU_TRLU, ID("L.tags"));
  SCHK(U->Stype == SLU_NC && U->Dtype == SLU_DT && U->Mtype == SLU_TRU, ID("U.tags"));
  SCHK(L->nrow == m && L->ncol == n && U->nrow == n && U->ncol == n, ID("dims"));
  SCformat *Ls = (SCformat *)L->Store; NCformat *Us = (NCformat *)U->Store;
  elem_t *lv = (elem_t *)Ls->nzval, *uv = (elem_t *)Us->nzval;
  int ns = Ls->nsuper;
  SCHK(ns >= 0 && ns < n, ID("nsuper.range"));
  SCHK(Ls->sup_to_col[0] == 0 && Ls->sup_to_col[ns + 1] == n, ID("sup_to_col.ends"));
  for (int s = 0; s <= ns; s++) SCHK(Ls->sup_to_col[s] < Ls->sup_to_col[s + 1], ID("sup_to_col.increasing"));
  for (int s = 0; s <= ns; s++) for (int j = Ls->sup_to_col[s]; j < Ls->sup_to_col[s + 1]; j++) SCHK(Ls->col_to_sup[j] == s, ID("col_to_sup.consistent"));
  SCHK(Ls->rowind_colptr[0] == 0 && Ls->nzval_colptr[0] == 0 && Us->colptr[0] == 0, ID("ptr.start0"));
  for (int j = 0; j < n; j++) { SCHK(Ls->rowind_colptr[j] <= Ls->rowind_colptr[j + 1], ID("rowind_colptr.monotone")); SCHK(Ls->nzval_colptr[j] <= Ls->nzval_colptr[j + 1], ID("nzval_colptr.monotone")); SCHK(Us->colptr[j] <= Us->colptr[j + 1], ID("U.colptr.monotone")); }
  dense_clear(DL, m, n); dense_clear(DU, n, n);
  long nnzL = 0, nnzU = Us->colptr[n];
  for (int s = 0; s <= ns; s++) {
    int c = Ls->sup_to_col[s], c2 = Ls->sup_to_col[s + 1], nsupc = c2 - c;
    int_t r0 = Ls->rowind_colptr[c], r1 = Ls->rowind_colptr[c + 1]; int nsupr = (int)(r1 - r0);
    for (int k = c + 1; k <= c2; k++) SCHK(Ls->rowind_colptr[k] == r1, ID("rowind_colptr.shared"));
    SCHK(nsupr >= nsupc && nsupr <= m, ID("nsupr.range"));
    for (int k = 0; k < nsupc; k++) SCHK(Ls->rowind[r0 + k] == c + k, ID("rowind.leading-own-columns"));
    { unsigned char seen[NMAX + 2] = {0}; for (int k = nsupc; k < nsupr; k++) { int_t r = Ls->rowind[r0 + k]; SCHK(r >= c2 && r < m, ID("rowind.below-supernode")); SCHK(!seen[r], ID("rowind.distinct")); seen[r] = 1; } }
    for (int j = c; j < c2; j++) {
      SCHK(Ls->nzval_colptr[j + 1] - Ls->nzval_colptr[j] == nsupr, ID("nzval_colptr.length"));
      for (int k = 0; k < nsupr; k++) { int_t r = Ls->rowind[r0 + k]; elem_t v = lv[Ls->nzval_colptr[j] + k];
        if (r > j) { DL->a[r][j] = v; DL->nz[r][j] = 1; } else { DU->a[r][j] = v; DU->nz[r][j] = 1; } }
      DL->a[j][j] = e_one(); DL->nz[j][j] = 1;
      nnzL += nsupr - (j - c); nnzU += j - c + 1;
      unsigned char seen[NMAX + 2] = {0};
      for (int_t p = Us->colptr[j]; p < Us->colptr[j + 1]; p++) { int_t r = Us->rowind[p]; SCHK(r >= 0 && r < c, ID("U.rowind.above-supernode"));
        if (!ilu) SCHK(!seen[r], ID("U.rowind.distinct"));
        if (seen[r]) { /* ILU: a repeated row index must carry an explicit zero in one of the copies */ SCHK(e_is_concrete_zero(uv[p]) || e_is_concrete_zero(DU->a[r][j]), ID("U.repeat.explicit-zero")); DU->a[r][j] = e_add(DU->a[r][j], uv[p]); }
        else { DU->a[r][j] = uv[p]; DU->nz[r][j] = 1; } seen[r] = 1; }
    }
  }
  SCHK(Ls->nnz == nnzL, ID("L.nnz.recount"));
  SCHK(Us->nnz == nnzU, ID("U.nnz.recount"));
#undef ID
  return 1;
}


/* lenient extraction (no obligations): used on singular returns where only the leading part is promised */
static int h_extract_LU(SuperMatrix *L, SuperMatrix *U, int m, int n, dense_t *DL, dense_t *DU) {
  if (L->Stype != SLU_SC || U->Stype != SLU_NC || L->ncol != n) return 0;
  SCformat *Ls = (SCformat *)L->Store; NCformat *Us = (NCformat *)U->Store; elem_t *lv = (elem_t *)Ls->nzval, *uv = (elem_t *)Us->nzval;
  int ns = Ls->nsuper; if (ns < 0 || ns >= n) return 0;
  dense_clear(DL, m, n); dense_clear(DU, n, n);
  for (int s = 0; s <= ns; s++) { int c = Ls->sup_to_col[s], c2 = Ls->sup_to_col[s + 1]; if (c < 0 || c2 > n || c >= c2) return 0;
    int_t r0 = Ls->rowind_colptr[c], r1 = Ls->rowind_colptr[c + 1]; if (r0 < 0 || r1 < r0 || r1 - r0 > m) return 0;
    for (int j = c; j < c2; j++) { for (int k = 0; k < r1 - r0; k++) { int_t r = Ls->rowind[r0 + k]; if (r < 0 || r >= m) continue; elem_t v = lv[Ls->nzval_colptr[j] + k];
        if (r > j) { DL->a[r][j] = v; DL->nz[r][j] = 1; } else { DU->a[r][j] = v; DU->nz[r][j] = 1; } }
      DL->a[j][j] = e_one(); DL->nz[j][j] = 1;
      for (int_t p = Us->colptr[j]; p < Us->colptr[j + 1]; p++) { int_t r = Us->rowind[p]; if (r < 0 || r >= n) continue; DU->a[r][j] = uv[p]; DU->nz[r][j] = 1; } } }
  return 1;
}
/* determinant by Laplace expansion along the first row of the k x k matrix M (k <= 6) */
static elem_t h_det(int k, elem_t M[][NMAX]) {
  if (k == 0) return e_one(); if (k == 1) return M[0][0];
  elem_t s = e_zero(); elem_t sub[NMAX][NMAX];
  for (int c = 0; c < k; c++) { for (int i = 1; i < k; i++) { int cc = 0; for (int j = 0; j < k; j++) if (j != c) sub[i - 1][cc++] = M[i][j]; }
    elem_t t = e_mul(M[0][c], h_det(k - 1, sub)); s = (c & 1) ? e_sub(s, t) : e_add(s, t); }
  return s;
}

/* B = Pr*A*Pc : B[perm_r[i]][perm_c[j]] = A[i][j] */
static void h_permuted(const dense_t *A, const int *perm_r, const int *perm_c, dense_t *B) { dense_clear(B, A->m, A->n); for (int i = 0; i < A->m; i++) for (int j = 0; j < A->n; j++) { B->a[perm_r[i]][perm_c[j]] = A->a[i][j]; B->nz[perm_r[i]][perm_c[j]] = A->nz[i][j]; } }
/* assert sum_k L[i][k]*U[k][j] == B[i][j] for columns j < ncols */
static void h_assert_LU_eq(const dense_t *DL, const dense_t *DU, const dense_t *B, int ncols, int nrows, const char *id) {
  for (int j = 0; j < ncols; j++) for (int i = 0; i < nrows; i++) { elem_t s = e_zero(); real_t sc = e_abs1(B->a[i][j]); int any = B->nz[i][j];
      for (int k = 0; k <= j && k < DL->n; k++) if (DL->nz[i][k] && DU->nz[k][j]) { elem_t t = e_mul(DL->a[i][k], DU->a[k][j]); s = e_add(s, t); sc += e_abs1(t); any = 1; }
      if (any) e_assert_zero(e_sub(s, B->a[i][j]), (double)sc, id); }
}

/* pivoting bounds on the Schur-complement candidates c_i = B(i,j) - sum_{k<j} L(i,k) U(k,j) (i >= j), recomputed from the leading factors:
   |c_i| u <= |c_j| (the stored multiplier is c_i/c_j), and - when no remembered pivots are reused - diagonal preference */
static void h_assert_pivot_bounds(const dense_t *DL, const dense_t *DU, const dense_t *B, int m, int n, real_t u, const int *perm_r, const int *iperm_c, int diag_pref, const char *id_bound, const char *id_diag) {
  for (int j = 0; j < n; j++) { elem_t cand[NMAX]; unsigned char cnz[NMAX];
    for (int i = j; i < m; i++) { elem_t c = B->a[i][j]; cnz[i] = B->nz[i][j]; for (int k = 0; k < j; k++) if (DL->nz[i][k] && DU->nz[k][j]) { c = e_sub(c, e_mul(DL->a[i][k], DU->a[k][j])); cnz[i] = 1; } cand[i] = c; }
    real_t piv = e_abs1(cand[j]);
    for (int i = j + 1; i < m; i++) if (cnz[i]) slusym_assert_cmp(5, (double)(e_abs1(cand[i]) * u), (double)piv, 1.0, id_bound);
    if (diag_pref) { int oc = iperm_c[j]; if (oc < m) { int pr = perm_r[oc]; if (pr > j && cnz[pr]) { real_t d = e_abs1(cand[pr]); slusym_assert_or2(1, (double)d, 0.0, 4, (double)d, (double)(u * piv), id_diag); } } }
  }
}
/* identical result: same term (identical bits in any IEEE mode); if lazy ite-merging produced a different but equal DAG, the solver must prove equality under the path condition */
static void h_assert_identical(double a, double b, const char *id) { if (slusym_same(a, b)) slusym_assert_true(1, id); else { slusym_note("identical_by_solver_not_by_term", 1); slusym_assert_zero(a - b, 1.0, id); } }
static void e_assert_identical(elem_t a, elem_t b, const char *id) {
#if IS_COMPLEX
  h_assert_identical((double)a.r, (double)b.r, id); h_assert_identical((double)a.i, (double)b.i, id);
#else
  h_assert_identical((double)a, (double)b, id);
#endif
}
static void h_set_tuning(int panel, int relax, int maxsuper, int rowblk, int colblk, int fill) { h_tune[1] = panel; h_tune[2] = relax; h_tune[3] = maxsuper; h_tune[4] = rowblk; h_tune[5] = colblk; h_tune[6] = fill; h_tune[7] = maxsuper; }
static long h_arg(int argc, char **argv, int i, long dflt) { return (i + 1 < argc) ? strtol(argv[i + 1], 0, 0) : dflt; }
#endif
