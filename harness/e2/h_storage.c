/* h_storage.c — C07: the factors do not depend on how their storage was obtained (layer T: identical terms).
 * The same symbolic matrix is factored twice: reference regime (library allocation, generous fill estimate) and a second regime.
 * args: n pattern colperm permidx panel relax maxsuper rowblk colblk symcols umode fill2 lwork2 woff2 ilu
 *   fill2 : fill estimate of the second run (1 => many in-flight expansions);  lwork2: 0 library allocation, >0 caller workspace of that size
 *   ilu   : 0 ?gstrf, 1 ?gsitrf (incomplete LU, default ILU options) */
#include "hcommon.h"

typedef struct { int_t info; int perm_r[NMAX], perm_c[NMAX]; int nsuper; int xsup[NMAX + 2], supno[NMAX + 2]; int_t xlsub[NMAX + 2], xlusup[NMAX + 2], xusub[NMAX + 2]; int_t lsub[NMAX * NMAX + 8], usub[NMAX * NMAX + 8];
                 elem_t lusup[NMAX * NMAX + 8], ucol[NMAX * NMAX + 8]; int_t nnzL, nnzU; int expansions; } snap_t;
static snap_t S1, S2;

static void run(symmat_t *S, int n, int colperm, int permidx, real_t u, int ilu, int fill, long lwork, long woff, snap_t *out) {
  SuperMatrix A, AC, L, U; superlu_options_t opt; SuperLUStat_t stat; GlobalLU_t Glu; int etree[NMAX];
  if (ilu) ilu_set_default_options(&opt); else set_default_options(&opt);
  opt.DiagPivotThresh = (double)u; opt.ColPerm = colperm == 4 ? MY_PERMC : (colperm_t)colperm; if (ilu) { opt.RowPerm = NOROWPERM; opt.ILU_MILU = SILU; }
  F(Create_CompCol_Matrix)(&A, n, n, S->nnz, S->val, S->rowind, S->colptr, SLU_NC, SLU_DT, SLU_GE);
  if (colperm == 4) h_kth_perm(n, permidx, out->perm_c); else get_perm_c(colperm, &A, out->perm_c);
  StatInit(&stat); h_tune[6] = fill;
  void *work = lwork > 0 ? slusym_workspace(lwork, woff) : NULL;
  sp_preorder(&opt, &A, out->perm_c, etree, &AC);
  out->info = -1;
  if (ilu) F(gsitrf)(&opt, &AC, sp_ienv(2), sp_ienv(1), etree, work, (int_t)lwork, out->perm_c, out->perm_r, &L, &U, &Glu, &stat, &out->info);
  else F(gstrf)(&opt, &AC, sp_ienv(2), sp_ienv(1), etree, work, (int_t)lwork, out->perm_c, out->perm_r, &L, &U, &Glu, &stat, &out->info);
  out->expansions = stat.expansions;
  if (out->info >= 0 && out->info <= n) {
    SCformat *Ls = (SCformat *)L.Store; NCformat *Us = (NCformat *)U.Store; out->nsuper = Ls->nsuper; out->nnzL = Ls->nnz; out->nnzU = Us->nnz;
    for (int i = 0; i <= n; i++) { out->xsup[i] = i <= Ls->nsuper + 1 ? Ls->sup_to_col[i] : -1; out->supno[i] = i < n ? Ls->col_to_sup[i] : -1; out->xlsub[i] = Ls->rowind_colptr[i]; out->xlusup[i] = Ls->nzval_colptr[i]; out->xusub[i] = Us->colptr[i]; }
    for (int_t k = 0; k < Ls->rowind_colptr[n] && k < NMAX * NMAX; k++) out->lsub[k] = Ls->rowind[k];
    for (int_t k = 0; k < Ls->nzval_colptr[n] && k < NMAX * NMAX; k++) out->lusup[k] = ((elem_t *)Ls->nzval)[k];
    for (int_t k = 0; k < Us->colptr[n] && k < NMAX * NMAX; k++) { out->usub[k] = Us->rowind[k]; out->ucol[k] = ((elem_t *)Us->nzval)[k]; }
    /* reported memory usage describes the returned factors */
    mem_usage_t mu; if (ilu) ILUF(QuerySpace)(&L, &U, &mu); else F(QuerySpace)(&L, &U, &mu);
    float iw = sizeof(int), dw = sizeof(elem_t); float want = (float)((4.0 * n + 3.0) * iw + Ls->nzval_colptr[n] * dw + Ls->rowind_colptr[n] * iw); want += (float)((n + 1.0) * iw + Us->colptr[n] * (dw + iw));
    slusym_assert_true(mu.for_lu == want || (mu.for_lu > want * 0.999f && mu.for_lu < want * 1.001f), "C07.memusage.describes-returned-factors");
    if (lwork > 0) { slusym_workspace_check("C07.workspace.confined"); Destroy_SuperMatrix_Store(&L); Destroy_SuperMatrix_Store(&U); } else { Destroy_SuperNode_Matrix(&L); Destroy_CompCol_Matrix(&U); }
  }
  Destroy_CompCol_Permuted(&AC); Destroy_SuperMatrix_Store(&A); StatFree(&stat);
}

int main(int argc, char **argv) {
  int n = (int)h_arg(argc, argv, 0, 3); h_pat_t pat = argc > 2 ? argv[2] : "0x1ff"; int colperm = (int)h_arg(argc, argv, 2, 0), permidx = (int)h_arg(argc, argv, 3, 0);
  h_set_tuning((int)h_arg(argc, argv, 4, 1), (int)h_arg(argc, argv, 5, 1), (int)h_arg(argc, argv, 6, 1), (int)h_arg(argc, argv, 7, 1), (int)h_arg(argc, argv, 8, 1), 20);
  unsigned symcols = (unsigned)h_arg(argc, argv, 9, -1); int umode = (int)h_arg(argc, argv, 10, 0), fill2 = (int)h_arg(argc, argv, 11, 1); long lwork2 = h_arg(argc, argv, 12, 0), woff2 = h_arg(argc, argv, 13, 0); int ilu = (int)h_arg(argc, argv, 14, 0);
  symmat_t S; symmat_build_cols(&S, n, n, pat, "a", symcols);
  real_t u = 1; if (umode == 1) { u = SYMREAL("u"); slusym_assume_cmp(3, (double)u, 0.0); slusym_assume_cmp(5, (double)u, 1.0); } else if (umode == 2) u = 0.5; else if (umode == 3) u = 0;   /* documented range of DiagPivotThresh is [0,1] */
  run(&S, n, colperm, permidx, u, ilu, 4 * n + 20, 0, 0, &S1);
  run(&S, n, colperm, permidx, u, ilu, fill2, lwork2, woff2, &S2);
  slusym_note("info", (long)S1.info); slusym_note("expansions2", S2.expansions); slusym_note("expansions1", S1.expansions);
  if (S2.info > n) { slusym_note("second-regime-out-of-space", 1); slusym_done(); return 0; }   /* insufficient workspace is C08's subject */
  slusym_assert_true(S1.info == S2.info, "C07.info.same");
  if (S1.info >= 0 && S1.info <= n) {
    int same = 1; for (int i = 0; i < n; i++) if (S1.perm_r[i] != S2.perm_r[i] || S1.perm_c[i] != S2.perm_c[i]) same = 0; slusym_assert_true(same, "C07.permutations.same");
    same = S1.nsuper == S2.nsuper && S1.nnzL == S2.nnzL && S1.nnzU == S2.nnzU; for (int i = 0; i <= n; i++) if (S1.xsup[i] != S2.xsup[i] || S1.supno[i] != S2.supno[i] || S1.xlsub[i] != S2.xlsub[i] || S1.xlusup[i] != S2.xlusup[i] || S1.xusub[i] != S2.xusub[i]) same = 0;
    slusym_assert_true(same, "C07.structure.pointers.same");
    if (same) { int si = 1; for (int_t k = 0; k < S1.xlsub[n]; k++) if (S1.lsub[k] != S2.lsub[k]) si = 0; for (int_t k = 0; k < S1.xusub[n]; k++) if (S1.usub[k] != S2.usub[k]) si = 0; slusym_assert_true(si, "C07.structure.indices.same");
      for (int_t k = 0; k < S1.xlusup[n]; k++) e_assert_same(S1.lusup[k], S2.lusup[k], "C07.L.values.identical-terms"); for (int_t k = 0; k < S1.xusub[n]; k++) e_assert_same(S1.ucol[k], S2.ucol[k], "C07.U.values.identical-terms"); }
  }
  slusym_done();
  return 0;
}
