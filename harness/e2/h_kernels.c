/* h_kernels.c — E2 harness for C14: sp_?gemv / sp_?gemm / sp_?trsv / ?gstrs compute the documented operation.
 * args: mode m n pattern tune(6) symcols p1 p2 p3 p4 p5
 *   mode 1 gemv : p1 trans char code, p2 alpha kind, p3 beta kind (0 zero, 1 one, 2 symbolic)
 *   mode 2 gemm : p1 trans char, p2 alpha kind, p3 beta kind, p4 nrhs, p5 (ldbx*4 + ldcx) extra leading-dimension rows
 *   mode 3 trsv : p1 uplo char, p2 trans char, p3 diag char   (factors from ?gstrf of the m x m matrix)
 *   mode 4 gstrs: p1 trans (0 N, 1 T, 2 C), p2 nrhs, p3 ldbx : result, and column independence (each column == solved alone, same terms) */
#include "hcommon.h"

static elem_t kind_val(int kind, const char *nm) { return kind == 0 ? e_zero() : kind == 1 ? e_one() : e_sym(nm); }

int main(int argc, char **argv) {
  int mode = (int)h_arg(argc, argv, 0, 1), m = (int)h_arg(argc, argv, 1, 2), n = (int)h_arg(argc, argv, 2, 2); h_pat_t pat = argc > 4 ? argv[4] : "0xf";
  h_set_tuning((int)h_arg(argc, argv, 4, 1), (int)h_arg(argc, argv, 5, 1), (int)h_arg(argc, argv, 6, 1), (int)h_arg(argc, argv, 7, 1), (int)h_arg(argc, argv, 8, 1), (int)h_arg(argc, argv, 9, 20));
  unsigned symcols = (unsigned)h_arg(argc, argv, 10, -1); long p1 = h_arg(argc, argv, 11, 'N'), p2 = h_arg(argc, argv, 12, 2), p3 = h_arg(argc, argv, 13, 2), p4 = h_arg(argc, argv, 14, 1), p5 = h_arg(argc, argv, 15, 0);
  symmat_t S; symmat_build_cols(&S, m, n, pat, "a", symcols); char nm[32];
  SuperMatrix A; F(Create_CompCol_Matrix)(&A, m, n, S.nnz, S.val, S.rowind, S.colptr, SLU_NC, SLU_DT, SLU_GE);
  SuperLUStat_t stat; StatInit(&stat);

  if (mode == 1 || mode == 2) {
    char tr[2] = {(char)p1, 0}; int notran = (p1 == 'N' || p1 == 'n'), conj = (p1 == 'C' || p1 == 'c');
    int lenx = notran ? n : m, leny = notran ? m : n, nrhs = mode == 2 ? (int)p4 : 1, ldb = lenx + (mode == 2 ? (int)(p5 / 4) : 0), ldc = leny + (mode == 2 ? (int)(p5 % 4) : 0);
    elem_t alpha = kind_val((int)p2, "alpha"), beta = kind_val((int)p3, "beta");
    elem_t *x = (elem_t *)malloc(sizeof(elem_t) * (ldb * nrhs + 1)), *x0 = (elem_t *)malloc(sizeof(elem_t) * (ldb * nrhs + 1)), *y = (elem_t *)malloc(sizeof(elem_t) * (ldc * nrhs + 1)), *y0 = (elem_t *)malloc(sizeof(elem_t) * (ldc * nrhs + 1));
    for (int j = 0; j < nrhs; j++) { for (int i = 0; i < ldb; i++) { snprintf(nm, sizeof nm, "x%d_%d", i, j); x[j * ldb + i] = x0[j * ldb + i] = e_sym(nm); } for (int i = 0; i < ldc; i++) { snprintf(nm, sizeof nm, "y%d_%d", i, j); y[j * ldc + i] = y0[j * ldc + i] = e_sym(nm); } }
    if (mode == 1 && ((int)p4 != 1 || ((int)p5 != 0 && (int)p5 != 1))) {
      /* strided vectors: the no-transpose form implements any incx (incy = 1), the transposed forms any incy (incx = 1); negative increments run backwards from the far end */
      int incx = (int)p4, incy = (int)p5 ? (int)p5 : 1, ax = incx < 0 ? -incx : incx, ay = incy < 0 ? -incy : incy; int nx = 1 + (lenx - 1) * ax + 2, ny = 1 + (leny - 1) * ay + 2;
      elem_t *xs = (elem_t *)malloc(sizeof(elem_t) * nx), *xs0 = (elem_t *)malloc(sizeof(elem_t) * nx), *ys = (elem_t *)malloc(sizeof(elem_t) * ny), *ys0 = (elem_t *)malloc(sizeof(elem_t) * ny);
      for (int i = 0; i < nx; i++) { snprintf(nm, sizeof nm, "xs%d", i); xs[i] = xs0[i] = e_sym(nm); } for (int i = 0; i < ny; i++) { snprintf(nm, sizeof nm, "ys%d", i); ys[i] = ys0[i] = e_sym(nm); }
      SPF(gemv)(tr, alpha, &A, xs, incx, beta, ys, incy);
      int kx = incx > 0 ? 0 : (lenx - 1) * ax, ky = incy > 0 ? 0 : (leny - 1) * ay; unsigned char touched[64] = {0};
      for (int i = 0; i < leny; i++) { int iy = ky + i * incy; touched[iy] = 1; elem_t sacc = e_mul(beta, ys0[iy]); real_t sc = e_abs1(sacc);
        for (int k = 0; k < lenx; k++) { int nz = notran ? S.D.nz[i][k] : S.D.nz[k][i]; if (!nz) continue; elem_t a = notran ? S.D.a[i][k] : S.D.a[k][i]; if (conj) a = e_conj(a); elem_t t = e_mul(alpha, e_mul(a, xs0[kx + k * incx])); sacc = e_add(sacc, t); sc += e_abs1(t); }
        e_assert_zero(e_sub(ys[iy], sacc), (double)sc, "C14.gemv.strided.y=alpha*op(A)x+beta*y"); }
      for (int i = 0; i < ny; i++) if (!touched[i]) e_assert_same(ys[i], ys0[i], "C14.gemv.strided.gaps-and-surroundings.untouched");
      for (int i = 0; i < nx; i++) e_assert_same(xs[i], xs0[i], "C14.only-output-written.x");
      slusym_done(); return 0; }
    if (mode == 1) SPF(gemv)(tr, alpha, &A, x, 1, beta, y, 1);
    else { char tb[2] = {'N', 0}; SPF(gemm)(tr, tb, leny, nrhs, lenx, alpha, &A, x, ldb, beta, y, ldc); }
    for (int j = 0; j < nrhs; j++) { for (int i = 0; i < leny; i++) { elem_t s = e_mul(beta, y0[j * ldc + i]); real_t sc = e_abs1(s);
        for (int k = 0; k < lenx; k++) { int nz = notran ? S.D.nz[i][k] : S.D.nz[k][i]; if (!nz) continue; elem_t a = notran ? S.D.a[i][k] : S.D.a[k][i]; if (conj) a = e_conj(a); elem_t t = e_mul(alpha, e_mul(a, x0[j * ldb + k])); s = e_add(s, t); sc += e_abs1(t); }
        e_assert_zero(e_sub(y[j * ldc + i], s), (double)sc, mode == 1 ? "C14.gemv.y=alpha*op(A)x+beta*y" : "C14.gemm.C=alpha*op(A)B+beta*C"); }
      for (int i = leny; i < ldc; i++) e_assert_same(y[j * ldc + i], y0[j * ldc + i], "C14.gemm.padding.untouched");
      for (int i = 0; i < ldb; i++) e_assert_same(x[j * ldb + i], x0[j * ldb + i], "C14.only-output-written.x"); }
    { int same = 1; int_t k = 0; for (int j = 0; j < n; j++) for (int i = 0; i < m; i++) if (S.D.nz[i][j]) { if (!e_same(S.val[k], S.D.a[i][j])) same = 0; k++; } slusym_assert_true(same, "C14.only-output-written.A"); }
    slusym_done(); return 0;
  }

  /* factor the (square) matrix to obtain a real factor pair */
  superlu_options_t opt; set_default_options(&opt); opt.ColPerm = NATURAL; SuperMatrix AC, L, U; GlobalLU_t Glu; int perm_c[NMAX], perm_r[NMAX], etree[NMAX]; int_t info = -1;
  for (int i = 0; i < n; i++) perm_c[i] = i;
  sp_preorder(&opt, &A, perm_c, etree, &AC);
  F(gstrf)(&opt, &AC, sp_ienv(2), sp_ienv(1), etree, NULL, 0, perm_c, perm_r, &L, &U, &Glu, &stat, &info);
  slusym_note("info", (long)info);
  if (info != 0) { slusym_done(); return 0; }   /* singular branch: not this property's subject */
  dense_t DL, DU; if (!h_validate_LU(&L, &U, n, n, 0, &DL, &DU, "C14.factors")) { slusym_done(); return 0; }
  slusym_note("nsuper", (long)((SCformat *)L.Store)->nsuper);

  if (mode == 3) {
    char uplo[2] = {(char)p1, 0}, tr[2] = {(char)p2, 0}, dg[2] = {(char)p3, 0}; int lower = (p1 == 'L'), notran = (p2 == 'N'), conj = (p2 == 'C'); int sinfo = -1;
    elem_t x[NMAX], x0[NMAX]; for (int i = 0; i < n; i++) { snprintf(nm, sizeof nm, "x%d", i); x[i] = x0[i] = e_sym(nm); }
    SPF(trsv)(uplo, tr, dg, &L, &U, x, &stat, &sinfo);
    slusym_assert_true(sinfo == 0, "C14.trsv.info=0");
    const dense_t *T = lower ? &DL : &DU;
    for (int i = 0; i < n; i++) { elem_t s = e_zero(); real_t sc = e_abs1(x0[i]);
      for (int k = 0; k < n; k++) { int nz = notran ? T->nz[i][k] : T->nz[k][i]; if (!nz) continue; elem_t a = notran ? T->a[i][k] : T->a[k][i]; if (conj) a = e_conj(a); if (i == k && p3 == 'U') a = e_one(); elem_t t = e_mul(a, x[k]); s = e_add(s, t); sc += e_abs1(t); }
      e_assert_zero(e_sub(s, x0[i]), (double)sc, "C14.trsv.op(T)x=b"); }
    { SCformat *Ls = (SCformat *)L.Store; NCformat *Us = (NCformat *)U.Store; dense_t DL2, DU2; int ok = h_extract_LU(&L, &U, n, n, &DL2, &DU2), same = ok; (void)Ls; (void)Us;
      for (int i = 0; i < n && same; i++) for (int j = 0; j < n; j++) if (!e_same(DL2.a[i][j], DL.a[i][j]) || !e_same(DU2.a[i][j], DU.a[i][j])) same = 0; slusym_assert_true(same, "C14.only-output-written.factors"); }
  } else {
    int tcode = (int)p1, nrhs = (int)p2, ldb = n + (int)p3; trans_t trans = tcode == 0 ? NOTRANS : tcode == 1 ? TRANS : CONJ; int sinfo = -1;
    elem_t *b = (elem_t *)malloc(sizeof(elem_t) * (ldb * nrhs + 1)), *b0 = (elem_t *)malloc(sizeof(elem_t) * (ldb * nrhs + 1));
    for (int j = 0; j < nrhs; j++) for (int i = 0; i < ldb; i++) { snprintf(nm, sizeof nm, "b%d_%d", i, j); b[j * ldb + i] = b0[j * ldb + i] = e_sym(nm); }
    SuperMatrix B; F(Create_Dense_Matrix)(&B, n, nrhs, b, ldb, SLU_DN, SLU_DT, SLU_GE);
    F(gstrs)(trans, &L, &U, perm_c, perm_r, &B, &stat, &sinfo);
    slusym_assert_true(sinfo == 0, "C14.gstrs.info=0");
    for (int j = 0; j < nrhs; j++) { for (int i = 0; i < n; i++) { elem_t s = e_zero(); real_t sc = e_abs1(b0[j * ldb + i]);
        for (int k = 0; k < n; k++) { int nz = tcode == 0 ? S.D.nz[i][k] : S.D.nz[k][i]; if (!nz) continue; elem_t a = tcode == 0 ? S.D.a[i][k] : S.D.a[k][i]; if (tcode == 2) a = e_conj(a); elem_t t = e_mul(a, b[j * ldb + k]); s = e_add(s, t); sc += e_abs1(t); }
        e_assert_zero(e_sub(s, b0[j * ldb + i]), (double)sc, "C14.gstrs.op(A)X=B"); }
      for (int i = n; i < ldb; i++) e_assert_same(b[j * ldb + i], b0[j * ldb + i], "C14.gstrs.padding.untouched"); }
    /* column independence: each column solved alone (tight leading dimension) gives the same terms */
    for (int j = 0; j < nrhs && nrhs > 1; j++) { elem_t c[NMAX]; for (int i = 0; i < n; i++) c[i] = b0[j * ldb + i]; SuperMatrix B1; F(Create_Dense_Matrix)(&B1, n, 1, c, n, SLU_DN, SLU_DT, SLU_GE);
      F(gstrs)(trans, &L, &U, perm_c, perm_r, &B1, &stat, &sinfo); for (int i = 0; i < n; i++) { if (!e_same(c[i], b[j * ldb + i])) slusym_note("column_terms_differ", 1); e_assert_zero(e_sub(c[i], b[j * ldb + i]), 1.0, "C14.gstrs.column-independent"); } Destroy_SuperMatrix_Store(&B1); }
  }
  slusym_done();
  return 0;
}
