/* h_determ.c — C09: repeating a call with identical arguments gives identical output (same terms), whatever was solved in between;
 * no library routine stores into library-owned global/static storage (store monitor).
 * args: n pattern panel relax maxsuper rowblk colblk fill symcols mode bsym     (bsym 0: concrete right-hand sides, refinement on; 1: symbolic B, no refinement)
 *   mode 0: ?gssvx (equil, cond, refine, growth on)   mode 1: ?gsisx (ILU, SMILU_2, MC64 row perm)   mode 2: ?gssv */
#include "hcommon.h"
typedef struct { int_t info; elem_t x[NMAX * 2]; real_t rcond, rpg, ferr[2], berr[2]; int perm_c[NMAX], perm_r[NMAX]; char equed; } out_t;

static int g_refine = 1;
static void call(int mode, int n, symmat_t *S0, elem_t *b0, int nrhs, out_t *o, int variant) {
  symmat_t S = *S0; S.val = (elem_t *)malloc(sizeof(elem_t) * (S0->nnz + 1)); S.rowind = (int_t *)malloc(sizeof(int_t) * (S0->nnz + 1)); S.colptr = (int_t *)malloc(sizeof(int_t) * (n + 1));
  memcpy(S.val, S0->val, sizeof(elem_t) * S0->nnz); memcpy(S.rowind, S0->rowind, sizeof(int_t) * S0->nnz); memcpy(S.colptr, S0->colptr, sizeof(int_t) * (n + 1));
  elem_t *b = (elem_t *)malloc(sizeof(elem_t) * (n * nrhs + 1)), *x = (elem_t *)malloc(sizeof(elem_t) * (n * nrhs + 1)); for (int i = 0; i < n * nrhs; i++) { b[i] = b0[i]; x[i] = e_zero(); }
  SuperMatrix A, B, X, L, U; superlu_options_t opt; SuperLUStat_t stat; GlobalLU_t Glu; mem_usage_t mu; int etree[NMAX]; real_t R[NMAX], C[NMAX];
  F(Create_CompCol_Matrix)(&A, n, n, S.nnz, S.val, S.rowind, S.colptr, SLU_NC, SLU_DT, SLU_GE); F(Create_Dense_Matrix)(&B, n, nrhs, b, n, SLU_DN, SLU_DT, SLU_GE); F(Create_Dense_Matrix)(&X, n, nrhs, x, n, SLU_DN, SLU_DT, SLU_GE);
  StatInit(&stat); o->info = -1; o->equed = 'N'; o->rcond = o->rpg = 0; for (int j = 0; j < 2; j++) o->ferr[j] = o->berr[j] = 0;
  if (mode == 0) { set_default_options(&opt); opt.ColPerm = variant ? MMD_AT_PLUS_A : COLAMD; opt.Equil = YES; opt.ConditionNumber = YES; opt.IterRefine = g_refine ? SLU_DOUBLE : NOREFINE; opt.PivotGrowth = YES; opt.Trans = variant ? TRANS : NOTRANS;
    F(gssvx)(&opt, &A, o->perm_c, o->perm_r, etree, &o->equed, R, C, &L, &U, NULL, 0, &B, &X, &o->rpg, &o->rcond, o->ferr, o->berr, &Glu, &mu, &stat, &o->info); }
  else if (mode == 1) { ilu_set_default_options(&opt); opt.ILU_MILU = SMILU_2; opt.ILU_FillFactor = 2; opt.ILU_MILU_Dim = variant ? 1.0 : 3.0; opt.RowPerm = NOROWPERM; opt.ConditionNumber = NO; opt.PivotGrowth = YES;
    F(gsisx)(&opt, &A, o->perm_c, o->perm_r, etree, &o->equed, R, C, &L, &U, NULL, 0, &B, &X, &o->rpg, &o->rcond, &Glu, &mu, &stat, &o->info); }
  else { set_default_options(&opt); opt.ColPerm = variant ? MMD_ATA : COLAMD; F(gssv)(&opt, &A, o->perm_c, o->perm_r, &L, &U, &B, &stat, &o->info); for (int i = 0; i < n * nrhs; i++) x[i] = b[i]; }
  for (int i = 0; i < n * nrhs; i++) o->x[i] = x[i];
  if (o->info >= 0 && o->info <= n + 1) { Destroy_SuperNode_Matrix(&L); Destroy_CompCol_Matrix(&U); }
  StatFree(&stat); free(S.val); free(S.rowind); free(S.colptr); free(b); free(x);
}

int main(int argc, char **argv) {
  int n = (int)h_arg(argc, argv, 0, 3); h_pat_t pat = argc > 2 ? argv[2] : "0x1ff";
  h_set_tuning((int)h_arg(argc, argv, 2, 1), (int)h_arg(argc, argv, 3, 1), (int)h_arg(argc, argv, 4, 1), (int)h_arg(argc, argv, 5, 1), (int)h_arg(argc, argv, 6, 1), (int)h_arg(argc, argv, 7, 20));
  unsigned symcols = (unsigned)h_arg(argc, argv, 8, 0); int mode = (int)h_arg(argc, argv, 9, 0), nrhs = 2, bsym = (int)h_arg(argc, argv, 10, 1); g_refine = !bsym;
  symmat_t S1, S2; symmat_build_cols(&S1, n, n, pat, "a", symcols); symmat_build_cols(&S2, n > 1 ? n - 1 : 1, n > 1 ? n - 1 : 1, "0xffffffffffffffffffffffff", "c", 0);   /* the unrelated problem: different size, concrete values */
  elem_t b1[NMAX * 2], b2[NMAX * 2]; char nm[32]; for (int i = 0; i < n * nrhs; i++) { snprintf(nm, sizeof nm, "b%d", i); b1[i] = bsym ? e_sym(nm) : e_scale(e_one(), (real_t)(i + 1) / 4); b2[i] = e_one(); }
  static out_t o1, o2, o3; long g0 = slusym_global_store_count();
  call(mode, n, &S1, b1, nrhs, &o1, 0);
  call(mode, S2.n, &S2, b2, 1, &o2, 1);              /* something else in between, different options */
  call(mode, n, &S1, b1, nrhs, &o3, 0);
  slusym_note("info", (long)o1.info);
  slusym_assert_true(o1.info == o3.info && o1.equed == o3.equed, "C09.repeat.info-equed.identical");
  { int same = 1; for (int i = 0; i < n; i++) if (o1.perm_c[i] != o3.perm_c[i] || ((o1.info >= 0 && o1.info <= n + 1) && o1.perm_r[i] != o3.perm_r[i])) same = 0; slusym_assert_true(same, "C09.repeat.permutations.identical"); }
  if (o1.info == 0 || o1.info == n + 1) { for (int i = 0; i < n * nrhs; i++) e_assert_identical(o1.x[i], o3.x[i], "C09.repeat.X.identical");
    h_assert_identical((double)o1.rpg, (double)o3.rpg, "C09.repeat.growth.identical"); if (mode == 0) { h_assert_identical((double)o1.rcond, (double)o3.rcond, "C09.repeat.rcond.identical");
      for (int j = 0; j < nrhs; j++) { h_assert_identical((double)o1.ferr[j], (double)o3.ferr[j], "C09.repeat.ferr.identical"); h_assert_identical((double)o1.berr[j], (double)o3.berr[j], "C09.repeat.berr.identical"); } } }
  slusym_assert_true(slusym_global_store_count() == g0, "C09.no-store-to-library-globals");
  slusym_done();
  return 0;
}
