// slusym runtime: Z3-backed symbolic floating point for IR rewritten by slusym-instr.
// Symbolic values are NaN-boxed term ids; integers/pointers are the machine's own (concrete).
// Term sort: Real (layer X). Identical DAG <=> identical z3 ast (hash-consed, never simplified at
// construction) which is what layer T (slusym_same) relies on.
#include <z3++.h>
#include <vector>
#include <string>
#include <map>
#include <set>
#include <unordered_map>
#include <cstring>
#include <cstdint>
#include <cstdio>
#include <cstdlib>
#include <cmath>
#include <cfloat>
#include <ctime>
#include <unistd.h>
#include "slusym.h"

void finish(const char *how);
namespace {
z3::context ctx;
std::vector<z3::expr> T;             // term table (Real)
std::vector<z3::expr> CONDS;         // bool terms for merged selects
std::vector<z3::expr> PC;            // path condition
struct Input { std::string name; z3::expr e; };
std::vector<Input> inputs;
std::map<std::string, double> concreteVals; bool concreteMode = false;
std::string dec; size_t dpos = 0; std::string taken;
long nq = 0, nqsat = 0, nqunsat = 0, nqunk = 0; double qsec = 0; size_t maxpc = 0;
long nassert = 0, nok = 0, nviol = 0, nunk = 0;
bool nameDiv = false; bool done = false; bool chkdiv = true; bool nomerge = false; bool gap = false; unsigned qtimeout = 10000; double tol = 1e-9;
FILE *out = nullptr; std::string outdir;
std::map<std::string, long> notes; std::vector<std::string> events;
std::map<std::string, std::pair<long,long>> acount;   // assertion id -> (ok, notok)
std::unordered_map<unsigned, bool> decided;           // cmp ast id -> value (keys are kept alive in KEEP: z3 reuses ids of freed asts)
std::vector<z3::expr> KEEP;
z3::model *curModel = nullptr;
std::set<int> reached, executed; int curBlock = -1;
double t0;

const uint64_t TAG = 0x7FF8A00000000000ULL, MASK = 0xFFFFF00000000000ULL, PAY = 0xFFFFFFFFFFULL;
const uint32_t TAGF = 0x7FE00000u, MASKF = 0xFFF00000u, PAYF = 0xFFFFFu;
const uint32_t POISON32 = 0x7FF5A5A5u;

double now() { timespec ts; clock_gettime(CLOCK_MONOTONIC, &ts); return ts.tv_sec + ts.tv_nsec * 1e-9; }
std::string jesc(const std::string &s) { std::string o; for (char c : s) { if (c == '"' || c == '\\') { o += '\\'; o += c; } else if ((unsigned char)c < 32) o += ' '; else o += c; } return o; }
void emit(const std::string &s) { fprintf(out, "%s\n", s.c_str()); fflush(out); }
void event(const std::string &s) { if (events.size() < 50) events.push_back(s); }

uint64_t bitsd(double d) { uint64_t b; memcpy(&b, &d, 8); return b; }
uint32_t bitsf(float f) { uint32_t b; memcpy(&b, &f, 4); return b; }
bool isboxd(double d) { return (bitsd(d) & MASK) == TAG; }
bool isboxf(float f) { return (bitsf(f) & MASKF) == TAGF; }
double boxid(uint64_t id) { uint64_t b = TAG | id; double d; memcpy(&d, &b, 8); return d; }
float boxidf(uint64_t id) { if (id > PAYF) { emit("{\"k\":\"X\",\"why\":\"float term table overflow\"}"); done = true; exit(0); } uint32_t b = TAGF | (uint32_t)id; float f; memcpy(&f, &b, 4); return f; }
double box(const z3::expr &e) { T.push_back(e); return boxid(T.size() - 1); }
float boxf(const z3::expr &e) { T.push_back(e); return boxidf(T.size() - 1); }

std::unordered_map<uint64_t, unsigned> constCache;
static std::string pow2str(int k) { std::string s = "1"; for (int i = 0; i < k; i++) { int carry = 0; for (int j = (int)s.size() - 1; j >= 0; j--) { int v = (s[j] - '0') * 2 + carry; s[j] = '0' + v % 10; carry = v / 10; } if (carry) s.insert(s.begin(), '1'); } return s; }
static std::string mulstr(const std::string &a, unsigned long long m) { std::string s = a; unsigned long long carry = 0; for (int j = (int)s.size() - 1; j >= 0; j--) { unsigned __int128 v = (unsigned __int128)(s[j] - '0') * m + carry; s[j] = '0' + (int)(v % 10); carry = (unsigned long long)(v / 10); } while (carry) { s.insert(s.begin(), '0' + (int)(carry % 10)); carry /= 10; } return s; }
z3::expr constTerm(double d) {
  uint64_t b = bitsd(d); auto it = constCache.find(b); if (it != constCache.end()) return T[it->second];
  z3::expr r(ctx);
  if (d == 0) r = ctx.real_val(0);
  else { int e; double m = frexp(fabs(d), &e); unsigned long long mi = (unsigned long long)ldexp(m, 53); e -= 53;
    while (mi % 2 == 0) { mi /= 2; e++; }
    std::string num, den = "1"; if (e >= 0) num = mulstr(pow2str(e), mi); else { num = std::to_string(mi); den = pow2str(-e); }
    if (d < 0) num = "-" + num;
    r = ctx.real_val((num + "/" + den).c_str()); }
  T.push_back(r); constCache[b] = T.size() - 1; return r;
}
void badvalue(const char *what, uint64_t bits) {
  char buf[160]; snprintf(buf, sizeof buf, "{\"k\":\"E\",\"ev\":\"%s\",\"bits\":\"%016llx\",\"block\":%d,\"path\":\"%s\"}", what, (unsigned long long)bits, curBlock, taken.c_str());
  emit(buf); event(what);
}
z3::expr termd(double d) {
  uint64_t b = bitsd(d); if ((b & MASK) == TAG) return T[b & PAY];
  if (std::isnan(d) || std::isinf(d)) { bool poison = (uint32_t)(b >> 32) == POISON32 || (uint32_t)b == POISON32; badvalue(poison ? "uninit-fp" : "nonfinite-fp", b);
    return constTerm(0); }
  return constTerm(d);
}
z3::expr termf(float f) {
  uint32_t b = bitsf(f); if ((b & MASKF) == TAGF) return T[b & PAYF];
  if (std::isnan(f) || std::isinf(f)) { badvalue(b == POISON32 ? "uninit-fp" : "nonfinite-fp", b); return constTerm(0); }
  return constTerm((double)f);
}

z3::expr pcAnd() { z3::expr_vector v(ctx); for (auto &p : PC) v.push_back(p); return z3::mk_and(v); }
// result: 0 unsat, 1 sat, 2 unknown.  A fresh solver per query (reused solvers were seen to hang).
int check(const z3::expr *extra, z3::model **m, unsigned to = 0) {
  double t1 = now(); z3::solver s(ctx); z3::params p(ctx); p.set("timeout", to ? to : qtimeout); s.set(p);
  for (auto &q : PC) s.add(q); if (extra) s.add(*extra);
  z3::check_result r; try { r = s.check(); } catch (z3::exception &e) { r = z3::unknown; }
  nq++; qsec += now() - t1; if (PC.size() > maxpc) maxpc = PC.size();
  if (r == z3::unsat) { nqunsat++; return 0; }
  if (r == z3::sat) { nqsat++; if (m) { try { *m = new z3::model(s.get_model()); } catch (z3::exception &e) { *m = nullptr; } } return 1; }
  nqunk++; return 2;
}
void setModel(z3::model *m) { if (curModel) delete curModel; curModel = m; }
void infeasiblePrefix() { emit("{\"k\":\"I\",\"path\":\"" + taken + "\"}"); done = true; exit(0); }
bool ensureModel() { if (curModel) return true; z3::model *m = nullptr; int r = check(nullptr, &m); if (r == 0) infeasiblePrefix(); if (r == 1 && m) { setModel(m); return true; } return false; }
int evalBool(const z3::expr &c) { if (!curModel) return -1; try { z3::expr v = curModel->eval(c, true); if (v.is_true()) return 1; if (v.is_false()) return 0; } catch (z3::exception &e) {} return -1; }

bool decide(const z3::expr &c0) {
  z3::expr c = c0.simplify(); if (c.is_true()) return true; if (c.is_false()) return false;
  auto it = decided.find(c.id()); if (it != decided.end()) return it->second;
  bool r;
  if (dpos < dec.size()) { char ch = dec[dpos++]; r = (ch == '1' || ch == 'T'); taken.push_back(ch); setModel(nullptr); }
  else {
    dpos++;
    ensureModel(); int ms = evalBool(c);
    z3::expr nc = !c; int ft, ff; z3::model *mo = nullptr;
    if (ms == 1) { ft = 1; ff = check(&nc, &mo); }
    else if (ms == 0) { ff = 1; ft = check(&c, &mo); }
    else { z3::model *m1 = nullptr; ft = check(&c, &m1); ff = check(&nc, &mo); if (ft == 1 && m1) { setModel(m1); ms = 1; } else { setModel(nullptr); ms = -1; } }
    if (ft && ff) { r = true; emit("{\"k\":\"F\",\"p\":\"" + taken + "0\"}"); taken.push_back('1');
      if (ms != 1) { if (ms == 0 && ft == 1 && mo) { setModel(mo); mo = nullptr; } else setModel(nullptr); } }
    else if (ft) { r = true; taken.push_back('T'); if (ms != 1) setModel(nullptr); }
    else if (ff) { r = false; taken.push_back('F'); if (ms != 0) setModel(nullptr); }
    else infeasiblePrefix();
    if (mo) delete mo;
  }
  PC.push_back(r ? c : !c); decided[c.id()] = r; KEEP.push_back(c); z3::expr ncs = (!c).simplify(); decided[ncs.id()] = !r; KEEP.push_back(ncs);
  return r;
}
z3::expr cmpTerm(int pred, const z3::expr &x, const z3::expr &y) {
  switch (pred) { case 1: case 9: return x == y; case 2: case 10: return x > y; case 3: case 11: return x >= y; case 4: case 12: return x < y;
    case 5: case 13: return x <= y; case 6: case 14: return x != y; case 7: case 15: return ctx.bool_val(true); case 0: case 8: return ctx.bool_val(false); }
  fprintf(stderr, "slusym: bad predicate %d\n", pred); abort();
}
bool cmpConcrete(int pred, double a, double b) {
  switch (pred) { case 1: return a == b; case 2: return a > b; case 3: return a >= b; case 4: return a < b; case 5: return a <= b; case 6: return a != b && a == a && b == b;
    case 7: return a == a && b == b; case 8: return a != a || b != b; case 9: return a == b || a != a || b != b; case 10: return !(a <= b); case 11: return !(a < b);
    case 12: return !(a >= b); case 13: return !(a > b); case 14: return a != b; case 15: return true; default: return false; }
}
void touch() { if (curBlock >= 0) reached.insert(curBlock); }

std::string ratStr(const z3::expr &v) { try { return v.get_decimal_string(20); } catch (...) { return "?"; } }
static double bigToDouble(const std::string &s0, int *e10) {   /* decimal integer string -> mantissa in [1,10^17) and decimal exponent */
  std::string s = s0; bool neg = false; if (!s.empty() && s[0] == '-') { neg = true; s = s.substr(1); } size_t p = s.find_first_not_of('0'); if (p == std::string::npos) { *e10 = 0; return 0; } s = s.substr(p);
  std::string head = s.substr(0, 18); *e10 = (int)s.size() - (int)head.size(); double m = strtod(head.c_str(), nullptr); return neg ? -m : m; }
double ratDouble(const z3::expr &v) {
  try {
    if (v.is_numeral()) { int en, ed; double mn = bigToDouble(v.numerator().get_decimal_string(0), &en), md = bigToDouble(v.denominator().get_decimal_string(0), &ed); if (mn == 0) return 0;
      long double q = (long double)mn / (long double)md; int e = en - ed; long double r = q * powl(10.0L, (long double)e); return (double)r; }
    if (v.is_algebraic()) { std::string s = v.get_decimal_string(30); if (!s.empty() && s.back() == '?') s.pop_back(); return strtod(s.c_str(), nullptr); } } catch (...) {}
  return NAN;
}
// try to pin inputs to short dyadic values while keeping (pc && extra) satisfiable, so that the model survives rounding to doubles
z3::model *dyadicize(const z3::expr &extra, z3::model *m) {
  std::vector<z3::expr> pins; z3::model *cur = m;
  for (auto &in : inputs) {
    double v = ratDouble(cur->eval(in.e, true)); if (!(v == v)) continue; bool pinned = false;
    for (int k : {0, 2, 8}) { double s = ldexp(1.0, k); double r = nearbyint(v * s) / s; if (fabs(r) > 1e15) continue;
      z3::expr pin = (in.e == constTerm(r)); z3::expr_vector vv(ctx); vv.push_back(extra); for (auto &p : pins) vv.push_back(p); vv.push_back(pin); z3::expr all = z3::mk_and(vv);
      z3::model *m2 = nullptr; int rr = check(&all, &m2, 2000); if (rr == 1 && m2) { pins.push_back(pin); if (cur != m) delete cur; cur = m2; pinned = true; break; } if (m2) delete m2; }
    if (!pinned) { /* keep the model value */ z3::expr pin = (in.e == cur->eval(in.e, true)); pins.push_back(pin); }
  }
  return cur;
}
std::string modelJson(z3::model *m) {
  std::string s = "{"; bool first = true;
  for (auto &in : inputs) { z3::expr v = m->eval(in.e, true); double d = ratDouble(v); char buf[64]; snprintf(buf, sizeof buf, "%a", d);
    s += (first ? "" : ",") + std::string("\"") + jesc(in.name) + "\":[\"" + jesc(ratStr(v)) + "\",\"" + buf + "\"]"; first = false; }
  return s + "}";
}
bool validate(z3::model *m, const z3::expr &negA) {
  try { for (auto &p : PC) if (!m->eval(p, true).is_true()) return false; return m->eval(negA, true).is_true(); } catch (...) { return false; }
}
/* prefer a counterexample of moderate magnitude (replays in floating point without overflow); takes ownership of m */
z3::model *niceModel(const z3::expr &extra, z3::model *m) {
  for (double B : {8.0, 1024.0, 1e9}) { z3::expr_vector v(ctx); v.push_back(extra); for (auto &in : inputs) { v.push_back(in.e <= constTerm(B)); v.push_back(in.e >= constTerm(-B)); }
    z3::expr all = z3::mk_and(v); z3::model *m2 = nullptr; int r2 = check(&all, &m2, 3000); if (r2 == 1 && m2 && validate(m2, extra)) { if (m) delete m; return m2; } if (m2) delete m2; }
  return m;
}
void recordAssert(const char *id, int res, const z3::expr *negA, z3::model *m) {   // res 0 ok 1 viol 2 unknown
  nassert++; auto &ac = acount[id];
  if (res == 0) { nok++; ac.first++; return; }
  ac.second++;
  if (res == 1) { nviol++; std::string mj = "{}"; z3::model *own = nullptr; if (!m && !concreteMode && !negA) { z3::expr tt = ctx.bool_val(true); own = niceModel(tt, nullptr); if (own) m = own; else if (ensureModel()) m = curModel; } if (m) { z3::model *m2 = negA ? dyadicize(*negA, m) : m; mj = modelJson(m2); if (m2 != m) delete m2; } if (own) delete own;
    if (getenv("SLUSYM_DUMP_VIOL") && negA) { z3::solver s(ctx); for (auto &q : PC) s.add(q); s.add(*negA); FILE *f = fopen((std::string(getenv("SLUSYM_DUMP_VIOL")) + "/viol_" + std::to_string(nassert) + ".smt2").c_str(), "w"); if (f) { fprintf(f, "%s\n(get-model)\n", s.to_smt2().c_str()); fclose(f); } }
    emit("{\"k\":\"V\",\"id\":\"" + jesc(id) + "\",\"path\":\"" + taken + "\",\"block\":" + std::to_string(curBlock) + ",\"model\":" + mj + "}"); }
  else { nunk++; std::string qf;
    if (!outdir.empty() && negA) { z3::solver s(ctx); for (auto &q : PC) s.add(q); s.add(*negA); char nm[512]; snprintf(nm, sizeof nm, "%s/q_%d_%ld.smt2", outdir.c_str(), (int)getpid(), nassert);
      FILE *f = fopen(nm, "w"); if (f) { fprintf(f, "(set-logic QF_NRA)\n%s\n", s.to_smt2().c_str()); fclose(f); qf = nm; } }
    emit("{\"k\":\"U\",\"id\":\"" + jesc(id) + "\",\"path\":\"" + taken + "\",\"query\":\"" + jesc(qf) + "\"}"); }
}
// decide pc |= a
void obligation(const z3::expr &a0, const char *id) {
  z3::expr a = a0.simplify(); if (a.is_true()) { recordAssert(id, 0, nullptr, nullptr); return; }
  z3::expr na = !a;
  if (a.is_false()) { ensureModel(); recordAssert(id, 1, &na, curModel); return; }
  z3::model *m = nullptr; int r = check(&na, &m);
  if (r == 0) recordAssert(id, 0, nullptr, nullptr);
  else if (r == 1 && m && validate(m, na)) { m = niceModel(na, m); recordAssert(id, 1, &na, m); }
  else recordAssert(id, 2, &na, nullptr);
  if (m) delete m;
}

// ---------------------------------------------------------------------------------------------- heap ledger
struct Blk { size_t size; long seq; };
std::map<void *, Blk> heap; long mallocSeq = 0; long failAt = 0; long failCountdown = 0; long heapErrors = 0;
void poisonFill(void *p, size_t n) { uint32_t *w = (uint32_t *)p; size_t k = n / 4; for (size_t i = 0; i < k; i++) w[i] = POISON32; unsigned char *c = (unsigned char *)p + k * 4; for (size_t i = 0; i < n % 4; i++) c[i] = 0xA5; }
bool failNow() { if (failCountdown > 0) { if (--failCountdown == 0) { notes["malloc_failed_at_seq"] = mallocSeq + 1; return true; } } return false; }

// ---------------------------------------------------------------------------------------------- workspace guard
char *arena = nullptr; size_t arenaLen = 0; char *wsLo = nullptr, *wsHi = nullptr; const size_t GUARD = 1 << 20; long wsViol = 0;
extern "C" { extern char __start_slulib_data[] __attribute__((weak)); extern char __stop_slulib_data[] __attribute__((weak)); }
long globalStores = 0;

struct Init { Init() {
  t0 = now();
  const char *d = getenv("SLUSYM_DECISIONS"); if (d) dec = d;
  const char *o = getenv("SLUSYM_OUT"); out = o ? fopen(o, "a") : stdout; if (!out) out = stdout;
  const char *od = getenv("SLUSYM_QDIR"); if (od) outdir = od;
  const char *q = getenv("SLUSYM_QTIMEOUT_MS"); if (q) qtimeout = atoi(q);
  const char *cd = getenv("SLUSYM_CHKDIV"); if (cd) chkdiv = atoi(cd) != 0;
  const char *nd = getenv("SLUSYM_NAMEDIV"); if (nd) nameDiv = atoi(nd) != 0;
  const char *nm = getenv("SLUSYM_NOMERGE"); if (nm) nomerge = atoi(nm) != 0;
  const char *tl = getenv("SLUSYM_TOL"); if (tl) tol = atof(tl);
  const char *cv = getenv("SLUSYM_VALUES");
  if (cv) { concreteMode = true; FILE *f = fopen(cv, "r"); if (f) { char nmb[128], vb[128]; while (fscanf(f, "%127s %127s", nmb, vb) == 2) concreteVals[nmb] = strtod(vb, nullptr); fclose(f); } }
  atexit([] { if (!done) { done = true; finish("exit"); } });
} } init_;
}  // namespace

void finish(const char *how) {
  std::string s = "{\"k\":\"P\",\"path\":\"" + taken + "\",\"end\":\"" + how + "\",\"asserts\":" + std::to_string(nassert) + ",\"ok\":" + std::to_string(nok) + ",\"viol\":" + std::to_string(nviol) +
                  ",\"unk\":" + std::to_string(nunk) + ",\"queries\":" + std::to_string(nq) + ",\"q_unsat\":" + std::to_string(nqunsat) + ",\"q_sat\":" + std::to_string(nqsat) + ",\"q_unk\":" + std::to_string(nqunk) +
                  ",\"qsec\":" + std::to_string(qsec) + ",\"sec\":" + std::to_string(now() - t0) + ",\"terms\":" + std::to_string(T.size()) + ",\"pc\":" + std::to_string(PC.size()) +
                  ",\"decisions\":" + std::to_string(taken.size()) + ",\"global_stores\":" + std::to_string(globalStores) + ",\"ws_viol\":" + std::to_string(wsViol) + ",\"heap_errors\":" + std::to_string(heapErrors);
  s += ",\"notes\":{"; bool f = true; for (auto &n : notes) { s += (f ? "" : ",") + std::string("\"") + jesc(n.first) + "\":" + std::to_string(n.second); f = false; } s += "}";
  s += ",\"by_id\":{"; f = true; for (auto &n : acount) { s += (f ? "" : ",") + std::string("\"") + jesc(n.first) + "\":[" + std::to_string(n.second.first) + "," + std::to_string(n.second.second) + "]"; f = false; } s += "}";
  s += ",\"events\":["; f = true; for (auto &e : events) { s += (f ? "" : ",") + std::string("\"") + jesc(e) + "\""; f = false; } s += "]";
  if (!concreteMode && getenv("SLUSYM_EMIT_MODEL") && ensureModel()) s += ",\"model\":" + modelJson(curModel);
  s += ",\"reach\":["; f = true; for (int r : executed) { s += (f ? "" : ",") + std::to_string(r); f = false; } s += "]";
  s += ",\"reach_sym\":["; f = true; for (int r : reached) { s += (f ? "" : ",") + std::to_string(r); f = false; } s += "]}";
  emit(s);
}

extern "C" {
// ---------------------------------------------------------------------------------------------- arithmetic
// concrete (op) concrete: native result is used only when it is exact (error-free transformation test); otherwise the
// exact rational is built, so that layer X is exact arithmetic uniformly (mixed concrete/symbolic cases stay exact identities).
static bool exactBin(int op, double a, double b, double *res) {
  double r; switch (op) { case 0: r = a + b; break; case 1: r = a - b; break; case 2: r = a * b; break; default: r = a / b; }
  *res = r; if (!std::isfinite(r)) return true;   /* non-finite: let the event machinery see it */
  switch (op) {
    case 0: { double bb = r - a; double err = (a - (r - bb)) + (b - bb); return err == 0; }
    case 1: { double nb = -b; double bb = r - a; double err = (a - (r - bb)) + (nb - bb); return err == 0; }
    case 2: return fma(a, b, -r) == 0 && (r != 0 || a == 0 || b == 0);
    default: return b != 0 && fma(-r, b, a) == 0 && (r != 0 || a == 0);
  }
}
static std::map<std::pair<unsigned, unsigned>, unsigned> divCache;
static z3::expr binTerm(int op, const z3::expr &x, const z3::expr &y) { switch (op) { case 0: return x + y; case 1: return x - y; case 2: return x * y; default:
    if (nameDiv && !y.is_numeral()) {   /* purify: q with q*y == x (y != 0 is checked separately by divCheck; a possibly-zero divisor is an event) */
      auto key = std::make_pair(x.id(), y.id()); auto it = divCache.find(key); if (it != divCache.end()) return T[it->second];
      z3::expr q = ctx.real_const(("div!" + std::to_string(divCache.size())).c_str()); PC.push_back(z3::implies(y != 0, q * y == x)); setModel(nullptr); T.push_back(q); divCache[key] = T.size() - 1; return q; }
    return x / y; } }
static void divCheck(const z3::expr &y) {
  if (!chkdiv) return; z3::expr z = (y == 0); z3::expr zs = z.simplify(); if (zs.is_false()) return;
  if (zs.is_true()) { emit("{\"k\":\"E\",\"ev\":\"div-by-zero\",\"block\":" + std::to_string(curBlock) + ",\"path\":\"" + taken + "\"}"); event("div0"); return; }
  if (decided.find(zs.id()) != decided.end()) return;
  z3::model *m = nullptr; int r = check(&z, &m, qtimeout / 2);
  if (r == 1 && m && validate(m, z)) { emit("{\"k\":\"E\",\"ev\":\"div-by-possibly-zero\",\"block\":" + std::to_string(curBlock) + ",\"path\":\"" + taken + "\",\"model\":" + modelJson(m) + "}"); event("div0"); }
  else if (r != 0) event("div0-undecided");
  if (m) delete m;
}
double __sym_bin_d(int op, double a, double b) {
  bool conc = !isboxd(a) && !isboxd(b);
  if (conc && op == 3 && b == 0 && a == a) { emit("{\"k\":\"E\",\"ev\":\"div-by-zero\",\"block\":" + std::to_string(curBlock) + ",\"path\":\"" + taken + "\"}"); event("div0"); }
  if (conc) { double r; if (concreteMode || exactBin(op, a, b, &r)) { switch (op) { case 0: return a + b; case 1: return a - b; case 2: return a * b; default: return a / b; } }
    return box(binTerm(op, termd(a), termd(b)).simplify()); }
  touch(); z3::expr x = termd(a), y = termd(b); if (op == 3) divCheck(y);
  z3::expr t = binTerm(op, x, y); if (x.is_numeral() && y.is_numeral()) t = t.simplify(); return box(t);
}
float __sym_bin_f(int op, float a, float b) {
  bool conc = !isboxf(a) && !isboxf(b);
  if (conc && op == 3 && b == 0 && a == a) { emit("{\"k\":\"E\",\"ev\":\"div-by-zero\",\"block\":" + std::to_string(curBlock) + ",\"path\":\"" + taken + "\"}"); event("div0"); }
  if (conc) { double r; float rf; switch (op) { case 0: rf = a + b; break; case 1: rf = a - b; break; case 2: rf = a * b; break; default: rf = a / b; }
    if (concreteMode || !std::isfinite(rf) || (exactBin(op, (double)a, (double)b, &r) && (double)rf == r)) return rf;
    return boxf(binTerm(op, termf(a), termf(b)).simplify()); }
  touch(); z3::expr x = termf(a), y = termf(b); if (op == 3) divCheck(y);
  z3::expr t = binTerm(op, x, y); if (x.is_numeral() && y.is_numeral()) t = t.simplify(); return boxf(t);
}
double __sym_neg_d(double a) { if (!isboxd(a)) return -a; touch(); z3::expr x = termd(a); return box(x.is_numeral() ? (-x).simplify() : -x); }
float __sym_neg_f(float a) { if (!isboxf(a)) return -a; touch(); z3::expr x = termf(a); return boxf(x.is_numeral() ? (-x).simplify() : -x); }

static std::vector<std::pair<z3::expr, z3::expr>> LOGS;   // (argument, log value)
/* SLUSYM_LOG2=1 (C17 reach cases): log of a constant that is an exact power of two is the exact integer exponent (logarithms in base 2 -- a change of
   unit that mc64's add/subtract/compare arithmetic on logarithms cannot observe); the pair is registered so that symbolic log atoms are ordered against it */
static int log2mode() { static int m = -1; if (m < 0) { const char *e = getenv("SLUSYM_LOG2"); m = (e && *e == '1') ? 1 : 0; } return m; }
static bool pow2exp(double v, int *k) { if (!(v > 0) || !std::isfinite(v)) return false; int e; double m = frexp(v, &e); if (m != 0.5) return false; *k = e - 1; return true; }
static std::map<unsigned, unsigned> sqrtCache;            // arg ast id -> term index
static z3::expr symUnary(int op, const z3::expr &x) {
  switch (op) {
    case 0: if (x.is_numeral()) return z3::ite(x >= 0, x, -x).simplify(); return z3::ite(x >= 0, x, -x);
    case 1: { auto it = sqrtCache.find(x.id()); if (it != sqrtCache.end()) return T[it->second];
      z3::expr neg = (x < 0); if (check(&neg, nullptr) != 0) { emit("{\"k\":\"E\",\"ev\":\"sqrt-of-possibly-negative\",\"path\":\"" + taken + "\"}"); event("sqrtneg"); }
      z3::expr s = ctx.real_const(("sqrt!" + std::to_string(sqrtCache.size())).c_str()); PC.push_back(s * s == x); PC.push_back(s >= 0); setModel(nullptr);
      T.push_back(s); sqrtCache[x.id()] = T.size() - 1; return s; }
    case 2: { for (auto &pr : LOGS) if (z3::eq(pr.first, x)) return pr.second;
      if (log2mode() && x.is_numeral()) { int k; if (pow2exp(ratDouble(x), &k)) { z3::expr l = ctx.real_val(k); LOGS.push_back({x, l}); return l; } }
      z3::expr l = ctx.real_const(("log!" + std::to_string(LOGS.size())).c_str()); PC.push_back(x > 0); PC.push_back(l >= -745 && l <= 710);
      for (auto &pr : LOGS) { PC.push_back(z3::implies(x < pr.first, l < pr.second)); PC.push_back(z3::implies(x == pr.first, l == pr.second)); PC.push_back(z3::implies(x > pr.first, l > pr.second)); }
      LOGS.push_back({x, l}); setModel(nullptr); return l; }
    case 3: { for (auto &pr : LOGS) if (z3::eq(pr.second, x)) return pr.first;
      z3::expr e = ctx.real_const(("exp!" + std::to_string(LOGS.size())).c_str()); PC.push_back(e > 0);
      for (auto &pr : LOGS) { PC.push_back(z3::implies(e < pr.first, x < pr.second)); PC.push_back(z3::implies(e == pr.first, x == pr.second)); PC.push_back(z3::implies(e > pr.first, x > pr.second)); }
      LOGS.push_back({e, x}); setModel(nullptr); return e; }
    default: { z3::expr s = x.simplify(); if (s.is_numeral()) { double v = ratDouble(s); return constTerm(op == 4 ? floor(v) : ceil(v)); }
      /* lazy concretisation: enumerate the (few) integer values the term can take on this path, forking on each */
      for (int k = 0; k < 6; k++) { if (!ensureModel()) break; z3::expr mv = curModel->eval(x, true); if (!mv.is_numeral() && !mv.is_algebraic()) break; double v = ratDouble(mv); double f = op == 4 ? floor(v) : ceil(v);
        z3::expr lo = constTerm(op == 4 ? f : f - 1), hi = constTerm(op == 4 ? f + 1 : f); z3::expr c = op == 4 ? (x >= lo && x < hi) : (x > lo && x <= hi);
        if (decide(c)) return constTerm(f); }
      slusym_outside("floor/ceil of a symbolic value with more than 6 alternatives"); return x; }
  }
}
double __sym_un_d(int op, double a) {
  if (!isboxd(a)) { int k; if (op == 2 && log2mode() && pow2exp(a, &k)) { if (!concreteMode) symUnary(2, constTerm(a)); return (double)k; }
    switch (op) { case 0: return fabs(a); case 1: return sqrt(a); case 2: return log(a); case 3: return exp(a); case 4: return floor(a); default: return ceil(a); } }
  { double v; if (op >= 1 && op <= 3) { z3::expr s = termd(a).simplify(); if (s.is_numeral()) { v = ratDouble(s); int k; if (op == 2 && log2mode() && pow2exp(v, &k)) { symUnary(2, s); return (double)k; } return op == 1 ? sqrt(v) : op == 2 ? log(v) : exp(v); } } }
  touch(); return box(symUnary(op, termd(a)));
}
float __sym_un_f(int op, float a) {
  if (!isboxf(a)) { switch (op) { case 0: return fabsf(a); case 1: return sqrtf(a); case 2: return logf(a); case 3: return expf(a); case 4: return floorf(a); default: return ceilf(a); } }
  { double v; if (op >= 1 && op <= 3) { z3::expr s = termf(a).simplify(); if (s.is_numeral()) { v = ratDouble(s); return op == 1 ? sqrtf((float)v) : op == 2 ? logf((float)v) : expf((float)v); } } }
  touch(); return boxf(symUnary(op, termf(a)));
}
static z3::expr symPow(const z3::expr &x, const z3::expr &y) {
  z3::expr ys = y.simplify(); if (ys.is_numeral()) { double e = ratDouble(ys); if (e == floor(e) && fabs(e) <= 16) { z3::expr r = ctx.real_val(1); for (int i = 0; i < (int)fabs(e); i++) r = r * x; return e >= 0 ? r : ctx.real_val(1) / r; } }
  slusym_outside("pow with symbolic operand"); return x;
}
/* transcendental functions of exact-rational constants are evaluated natively (they are inexact in any case; only tuning constants reach them) */
static bool numeralOf(const z3::expr &t, double *v) { z3::expr s = t.simplify(); if (!s.is_numeral()) return false; *v = ratDouble(s); return true; }
double __sym_pow_d(double a, double b) { if (!isboxd(a) && !isboxd(b)) return pow(a, b); double x, y; if (numeralOf(termd(a), &x) && numeralOf(termd(b), &y)) return pow(x, y); touch(); return box(symPow(termd(a), termd(b))); }
float __sym_pow_f(float a, float b) { if (!isboxf(a) && !isboxf(b)) return powf(a, b); double x, y; if (numeralOf(termf(a), &x) && numeralOf(termf(b), &y)) return powf((float)x, (float)y); touch(); return boxf(symPow(termf(a), termf(b))); }
double __sym_fpext(float a) { if (!isboxf(a)) return (double)a; return boxid(bitsf(a) & PAYF); }
float __sym_fptrunc(double a) { if (!isboxd(a)) return (float)a; return boxidf(bitsd(a) & PAY); }

bool __sym_fcmp_d(int pred, double a, double b) { if (!isboxd(a) && !isboxd(b)) return cmpConcrete(pred, a, b); touch(); return decide(cmpTerm(pred, termd(a), termd(b))); }
bool __sym_fcmp_f(int pred, float a, float b) { if (!isboxf(a) && !isboxf(b)) return cmpConcrete(pred, a, b); touch(); return decide(cmpTerm(pred, termf(a), termf(b))); }
static long condOf(const z3::expr &c0) { z3::expr c = c0.simplify(); if (c.is_true()) return 1; if (c.is_false()) return 0; auto it = decided.find(c.id()); if (it != decided.end()) return it->second ? 1 : 0;
  if (nomerge) return decide(c) ? 1 : 0; CONDS.push_back(c); return 2 + (long)(CONDS.size() - 1); }
long __sym_cond_d(int pred, double a, double b) { if (!isboxd(a) && !isboxd(b)) return cmpConcrete(pred, a, b) ? 1 : 0; touch(); return condOf(cmpTerm(pred, termd(a), termd(b))); }
long __sym_cond_f(int pred, float a, float b) { if (!isboxf(a) && !isboxf(b)) return cmpConcrete(pred, a, b) ? 1 : 0; touch(); return condOf(cmpTerm(pred, termf(a), termf(b))); }
double __sym_sel_d(long c, double x, double y) { if (c == 1) return x; if (c == 0) return y; if (bitsd(x) == bitsd(y)) return x; return box(z3::ite(CONDS[c - 2], termd(x), termd(y))); }
float __sym_sel_f(long c, float x, float y) { if (c == 1) return x; if (c == 0) return y; if (bitsf(x) == bitsf(y)) return x; return boxf(z3::ite(CONDS[c - 2], termf(x), termf(y))); }

static long concretize(const z3::expr &t) {   // lazy concretisation of a symbolic value that must become an integer
  z3::expr s = t.simplify();
  for (int k = 0; k < 6; k++) {
    if (s.is_numeral()) { double v = ratDouble(s); return (long)v; }
    if (!ensureModel()) break; z3::expr v = curModel->eval(t, true); if (!v.is_numeral()) break;
    if (decide(t == v)) return (long)ratDouble(v);
  }
  slusym_outside("fptosi of a symbolic value with more than 6 alternatives"); return 0;
}
long __sym_fptosi_d(double a) { if (!isboxd(a)) return (long)a; touch(); return concretize(termd(a)); }
long __sym_fptosi_f(float a) { if (!isboxf(a)) return (long)a; touch(); return concretize(termf(a)); }
void __sym_reach(int id) { curBlock = id; if (!executed.count(id)) executed.insert(id); }

// ---------------------------------------------------------------------------------------------- heap
void *__sym_malloc(size_t n) { if (failNow()) return nullptr; void *p = malloc(n ? n : 1); if (!p) return p; poisonFill(p, n); heap[p] = {n, ++mallocSeq}; return p; }
void *__sym_calloc(size_t a, size_t b) { if (failNow()) return nullptr; void *p = calloc(a ? a : 1, b ? b : 1); if (!p) return p; heap[p] = {a * b, ++mallocSeq}; return p; }
void *__sym_realloc(void *q, size_t n) { if (!q) return __sym_malloc(n); if (failNow()) return nullptr; auto it = heap.find(q); size_t old = 0; if (it == heap.end()) { heapErrors++; event("realloc-of-unknown"); } else { old = it->second.size; heap.erase(it); }
  void *p = realloc(q, n ? n : 1); if (!p) return p; if (n > old) poisonFill((char *)p + old, n - old); heap[p] = {n, ++mallocSeq}; return p; }
void __sym_free(void *p) { if (!p) return; auto it = heap.find(p); if (it == heap.end()) { heapErrors++; event("free-of-unknown-or-double-free");
    emit("{\"k\":\"E\",\"ev\":\"bad-free\",\"path\":\"" + taken + "\"}"); return; } poisonFill(p, it->second.size); heap.erase(it); free(p); }
long slusym_heap_mark(void) { return mallocSeq; }
void slusym_heap_assert_clean(long mark, const char *id) { long live = 0; size_t bytes = 0; for (auto &b : heap) if (b.second.seq > mark) { live++; bytes += b.second.size; }
  notes[std::string("live_blocks_") + id] = live; notes[std::string("live_bytes_") + id] = (long)bytes; recordAssert(id, live == 0 ? 0 : 1, nullptr, nullptr); }
void slusym_fail_malloc_at(long k) { failCountdown = k; }
long slusym_malloc_count(void) { return mallocSeq; }

void __sym_store_check(void *p, size_t n) {
  char *c = (char *)p;
  if (&__start_slulib_data[0] && c + n > __start_slulib_data && c < __stop_slulib_data) { globalStores++; if (globalStores <= 3) emit("{\"k\":\"E\",\"ev\":\"store-to-library-global\",\"block\":" + std::to_string(curBlock) + ",\"off\":" + std::to_string(c - __start_slulib_data) + ",\"path\":\"" + taken + "\"}"); event("global-store"); }
  if (arena && c + n > arena && c < arena + arenaLen && (c < wsLo || c + n > wsHi)) { wsViol++; if (wsViol <= 3) emit("{\"k\":\"E\",\"ev\":\"store-outside-workspace\",\"off\":" + std::to_string(c - wsLo) + ",\"len\":" + std::to_string(n) + ",\"path\":\"" + taken + "\"}"); event("ws-store"); }
}
void *slusym_workspace(long lwork, long off) { arenaLen = 2 * GUARD + lwork + 64; arena = (char *)malloc(arenaLen); memset(arena, 0xC3, arenaLen);
  uintptr_t b = (uintptr_t)(arena + GUARD); b = (b + 15) & ~(uintptr_t)15; wsLo = (char *)b + off; wsHi = wsLo + lwork; return wsLo; }
void slusym_workspace_check(const char *id) { long bad = 0; for (char *c = arena; c < wsLo; c++) if ((unsigned char)*c != 0xC3) bad++; for (char *c = wsHi; c < arena + arenaLen; c++) if ((unsigned char)*c != 0xC3) bad++;
  notes[std::string("canary_bad_") + id] = bad; recordAssert(id, (bad == 0 && wsViol == 0) ? 0 : 1, nullptr, nullptr); }
long slusym_global_store_count(void) { return globalStores; }

// ---------------------------------------------------------------------------------------------- harness intrinsics
int slusym_is_symbolic(void) { return concreteMode ? 0 : 1; }
void slusym_input_gap(int on) { gap = on != 0; }
static double mkInput(const char *name, double maxabs, double minabs) {
  if (concreteMode) { auto it = concreteVals.find(name); if (it == concreteVals.end()) { fprintf(stderr, "slusym: no concrete value for %s\n", name); return 0; } return it->second; }
  z3::expr x = ctx.real_const(name); inputs.push_back({name, x}); z3::expr M = constTerm(maxabs);
  PC.push_back(x <= M); PC.push_back(x >= -M);
  if (gap) { z3::expr m = constTerm(minabs); PC.push_back(x == 0 || x >= m || x <= -m); }
  setModel(nullptr); return box(x);
}
double slusym_real(const char *name) { return mkInput(name, DBL_MAX, 4.9406564584124654e-324); }
double slusym_real_f(const char *name) { return mkInput(name, FLT_MAX, 1.401298464324817e-45); }
void slusym_assume_cmp(int pred, double a, double b) {
  if (!isboxd(a) && !isboxd(b)) { if (!cmpConcrete(pred, a, b)) { emit("{\"k\":\"I\",\"path\":\"" + taken + "\",\"why\":\"assume false\"}"); done = true; exit(0); } return; }
  z3::expr c = cmpTerm(pred, termd(a), termd(b)); PC.push_back(c); z3::expr cs = c.simplify(); decided[cs.id()] = true; KEEP.push_back(cs); setModel(nullptr);
}
void slusym_assert_cmp(int pred, double a, double b, double scale, const char *id) {
  if (!isboxd(a) && !isboxd(b)) { bool ok = cmpConcrete(pred, a, b);
    if (!ok && concreteMode) { double s = tol * fabs(isboxd(scale) ? 1 : scale); switch (pred) { case 1: ok = fabs(a - b) <= s; break; case 3: case 2: ok = a >= b - s; break; case 5: case 4: ok = a <= b + s; break; default: break; } }
    if (!ok) emit("{\"k\":\"C\",\"id\":\"" + jesc(id) + "\",\"a\":" + std::to_string(a) + ",\"b\":" + std::to_string(b) + "}");
    recordAssert(id, ok ? 0 : 1, nullptr, nullptr); return; }
  obligation(cmpTerm(pred, termd(a), termd(b)), id);
}
void slusym_assert_or2(int p1, double a1, double b1, int p2, double a2, double b2, const char *id) {
  bool s1 = isboxd(a1) || isboxd(b1), s2 = isboxd(a2) || isboxd(b2);
  if (!s1 && cmpConcrete(p1, a1, b1)) { recordAssert(id, 0, nullptr, nullptr); return; }
  if (!s2 && cmpConcrete(p2, a2, b2)) { recordAssert(id, 0, nullptr, nullptr); return; }
  if (!s1 && !s2) { if (concreteMode) { /* tolerance: treat as a<=b style */ double t = tol * (fabs(a1) + fabs(b1) + fabs(a2) + fabs(b2)); bool ok = false;
      auto near = [&](int p, double a, double b) { switch (p) { case 1: return fabs(a - b) <= t; case 2: case 3: return a >= b - t; case 4: case 5: return a <= b + t; default: return false; } };
      ok = near(p1, a1, b1) || near(p2, a2, b2); recordAssert(id, ok ? 0 : 1, nullptr, nullptr); if (!ok) emit("{\"k\":\"C\",\"id\":\"" + jesc(id) + "\"}"); return; }
    emit("{\"k\":\"C\",\"id\":\"" + jesc(id) + "\",\"path\":\"" + taken + "\"}"); recordAssert(id, 1, nullptr, nullptr); return; }
  z3::expr c1 = s1 ? cmpTerm(p1, termd(a1), termd(b1)) : ctx.bool_val(false), c2 = s2 ? cmpTerm(p2, termd(a2), termd(b2)) : ctx.bool_val(false);
  obligation(c1 || c2, id);
}
void slusym_assert_zero(double v, double scale, const char *id) { slusym_assert_cmp(1, v, 0.0, scale, id); }
void slusym_assert_nonzero(double v, const char *id) { slusym_assert_cmp(6, v, 0.0, 1.0, id); }
void slusym_assert_true(int c, const char *id) { if (!c) emit("{\"k\":\"C\",\"id\":\"" + jesc(id) + "\",\"path\":\"" + taken + "\"}"); recordAssert(id, c ? 0 : 1, nullptr, nullptr); }
int slusym_same(double a, double b) { if (isboxd(a) && isboxd(b)) return z3::eq(termd(a), termd(b)) ? 1 : 0; if (isboxd(a) != isboxd(b)) { z3::expr x = termd(a).simplify(), y = termd(b).simplify(); return z3::eq(x, y) ? 1 : 0; } return bitsd(a) == bitsd(b) ? 1 : 0; }
void slusym_assert_same(double a, double b, const char *id) { int s = slusym_same(a, b); if (!s) emit("{\"k\":\"C\",\"id\":\"" + jesc(id) + "\",\"path\":\"" + taken + "\",\"why\":\"terms differ\"}"); recordAssert(id, s ? 0 : 1, nullptr, nullptr); }
int slusym_entails_zero(double v) { if (!isboxd(v)) return v == 0; z3::expr c = (termd(v) != 0); return check(&c, nullptr) == 0 ? 1 : 0; }
void slusym_note(const char *key, long value) { notes[key] = value; }
void slusym_outside(const char *why) { emit("{\"k\":\"O\",\"path\":\"" + taken + "\",\"why\":\"" + jesc(why) + "\"}"); done = true; finish("outside"); fflush(nullptr); _exit(0); }
void slusym_done(void) { if (done) return; done = true; finish("done"); }
}
