// slusym-instr: compile-time instrumentation of clang-14 LLVM IR for symbolic floating point.
//
//   slusym-instr --tag-lib  in.bc out.bc
//       marks every defined function with attribute "slulib" and moves every writable global
//       (incl. function-local statics) into section "slulib_data" (C09 store monitor table).
//   slusym-instr [--store-monitor] [--table t.json] in.bc out.bc
//       rewrites every floating-point operation (double and float) into a call into the
//       runtime (rt.cpp), heap calls into ledger calls, optional store monitor, reach counters.
//
// Anything the tool does not know how to rewrite soundly (vector FP, x86_fp80, FP<->int bitcasts,
// unknown FP intrinsics) makes it exit 2: "engine not applicable to this tree", never a pass.
#include <llvm/IR/LLVMContext.h>
#include <llvm/IR/Module.h>
#include <llvm/IR/IRBuilder.h>
#include <llvm/IR/Instructions.h>
#include <llvm/IR/IntrinsicInst.h>
#include <llvm/IR/DebugInfoMetadata.h>
#include <llvm/IRReader/IRReader.h>
#include <llvm/Support/SourceMgr.h>
#include <llvm/Support/raw_ostream.h>
#include <llvm/Bitcode/BitcodeWriter.h>
#include <llvm/Support/FileSystem.h>
#include <llvm/IR/Verifier.h>
#include <llvm/Analysis/ValueTracking.h>
#include <set>
#include <map>
#include <string>
#include <vector>
using namespace llvm;

static int refuse(const std::string &why, const Instruction *I) {
  errs() << "slusym-instr: REFUSE " << why;
  if (I) { errs() << " in " << I->getFunction()->getName() << ": "; I->print(errs()); }
  errs() << "\n";
  return 2;
}
static std::string jsonesc(StringRef s){ std::string o; for(char c:s){ if(c=='"'||c=='\\'){o.push_back('\\');o.push_back(c);} else if((unsigned char)c<32) o+=' '; else o.push_back(c);} return o; }

int main(int argc, char **argv) {
  bool tagLib = false, storeMon = false; std::string table; std::vector<std::string> pos;
  for (int i = 1; i < argc; i++) { std::string a = argv[i];
    if (a == "--tag-lib") tagLib = true; else if (a == "--store-monitor") storeMon = true;
    else if (a == "--table" && i + 1 < argc) table = argv[++i]; else pos.push_back(a); }
  if (pos.size() != 2) { errs() << "usage: slusym-instr [--tag-lib|--store-monitor] [--table t.json] in.bc out.bc\n"; return 1; }
  LLVMContext C; SMDiagnostic E; auto M = parseIRFile(pos[0], E, C);
  if (!M) { E.print("slusym-instr", errs()); return 1; }

  if (tagLib) {
    for (auto &F : *M) if (!F.isDeclaration()) F.addFnAttr("slulib");
    for (auto &G : M->globals()) { StringRef nm = G.getName();
      if (!G.hasInitializer() || G.isConstant() || G.hasAppendingLinkage() || G.hasSection() || nm.startswith("llvm.") || nm.startswith("__asan") || nm.startswith("___asan") || nm.startswith("__odr_asan") || nm.startswith("__ubsan") || nm.startswith("__sancov") || nm.startswith("__msan")) continue;
      G.setSection("slulib_data"); }
    if (verifyModule(*M, &errs())) return 1;
    std::error_code EC; raw_fd_ostream O(pos[1], EC, sys::fs::OF_None); WriteBitcodeToFile(*M, O); return 0;
  }

  Type *D = Type::getDoubleTy(C), *Fl = Type::getFloatTy(C), *I32 = Type::getInt32Ty(C), *I1 = Type::getInt1Ty(C),
       *I64 = Type::getInt64Ty(C), *I8P = Type::getInt8PtrTy(C), *V = Type::getVoidTy(C);
  auto fn = [&](const char *n, Type *r, std::vector<Type *> a) { return M->getOrInsertFunction(n, FunctionType::get(r, a, false)); };
  FunctionCallee bin[2] = {fn("__sym_bin_d", D, {I32, D, D}), fn("__sym_bin_f", Fl, {I32, Fl, Fl})};
  FunctionCallee neg[2] = {fn("__sym_neg_d", D, {D}), fn("__sym_neg_f", Fl, {Fl})};
  FunctionCallee un[2] = {fn("__sym_un_d", D, {I32, D}), fn("__sym_un_f", Fl, {I32, Fl})};   // 0 fabs 1 sqrt 2 log 3 exp 4 floor 5 ceil
  FunctionCallee pw[2] = {fn("__sym_pow_d", D, {D, D}), fn("__sym_pow_f", Fl, {Fl, Fl})};
  FunctionCallee cmp[2] = {fn("__sym_fcmp_d", I1, {I32, D, D}), fn("__sym_fcmp_f", I1, {I32, Fl, Fl})};
  FunctionCallee cond[2] = {fn("__sym_cond_d", I64, {I32, D, D}), fn("__sym_cond_f", I64, {I32, Fl, Fl})};
  FunctionCallee sel[2] = {fn("__sym_sel_d", D, {I64, D, D}), fn("__sym_sel_f", Fl, {I64, Fl, Fl})};
  FunctionCallee f2i[2] = {fn("__sym_fptosi_d", I64, {D}), fn("__sym_fptosi_f", I64, {Fl})};
  FunctionCallee ext = fn("__sym_fpext", D, {Fl}), trunc = fn("__sym_fptrunc", Fl, {D});
  FunctionCallee symMalloc = fn("__sym_malloc", I8P, {I64}), symCalloc = fn("__sym_calloc", I8P, {I64, I64}),
                 symRealloc = fn("__sym_realloc", I8P, {I8P, I64}), symFree = fn("__sym_free", V, {I8P});
  FunctionCallee storeChk = fn("__sym_store_check", V, {I8P, I64}), reach = fn("__sym_reach", V, {I32});
  const DataLayout &DL = M->getDataLayout();

  auto fpk = [&](Type *t) -> int { return t->isDoubleTy() ? 0 : t->isFloatTy() ? 1 : -1; };
  auto badfp = [&](Type *t) { Type *s = t->getScalarType(); return (t->isVectorTy() && s->isFloatingPointTy()) || s->isX86_FP80Ty() || s->isFP128Ty() || s->isHalfTy() || s->isBFloatTy(); };

  long nrew = 0, nsel = 0, nheap = 0, nstore = 0; int reachId = 0;
  std::vector<std::string> reachTab, globStores, extFP; std::set<std::string> extSeen;
  std::map<std::string, int> unaryIdx = {{"fabs", 0}, {"sqrt", 1}, {"log", 2}, {"exp", 3}, {"floor", 4}, {"ceil", 5}};

  for (auto &F : *M) {
    if (F.isDeclaration()) continue;
    if (F.getName().startswith("__sym_")) continue;
    bool isLib = F.hasFnAttribute("slulib");
    std::vector<Instruction *> W;
    for (auto &B : F) for (auto &I : B) {
      /* FP vectors (x86-64 passes {float,float} as <2 x float>) are tolerated for pure data movement only */
      bool movement = isa<InsertElementInst>(I) || isa<ExtractElementInst>(I) || isa<ShuffleVectorInst>(I) || isa<LoadInst>(I) || isa<StoreInst>(I) || isa<ReturnInst>(I) || isa<PHINode>(I) || isa<BitCastInst>(I) ||
                      (isa<CallInst>(I) && !(cast<CallInst>(I).getCalledFunction() && cast<CallInst>(I).getCalledFunction()->isIntrinsic())) || (isa<SelectInst>(I) && !isa<FCmpInst>(cast<SelectInst>(I).getCondition()));
      auto bad = [&](Type *t) { if (!badfp(t)) return false; Type *sc = t->getScalarType(); if (t->isVectorTy() && (sc->isFloatTy() || sc->isDoubleTy()) && movement) return false; return true; };
      if (bad(I.getType())) return refuse("unsupported FP type", &I);
      for (auto &Op : I.operands()) if (bad(Op->getType())) return refuse("unsupported FP operand type", &I);
      W.push_back(&I);
    }
    std::set<BasicBlock *> fpBlocks; std::map<BasicBlock *, unsigned> blockLine;
    auto mark = [&](Instruction *I) { BasicBlock *B = I->getParent(); fpBlocks.insert(B); if (!blockLine.count(B) && I->getDebugLoc()) blockLine[B] = I->getDebugLoc().getLine(); };
    // pass 1: fcmp (so that the select idiom is recognised before the selects are visited)
    std::set<Instruction *> dead;
    for (auto *I : W) {
      auto *FC = dyn_cast<FCmpInst>(I); if (!FC) continue;
      int k = fpk(FC->getOperand(0)->getType()); if (k < 0) return refuse("fcmp on unsupported type", I);
      bool allsel = !FC->use_empty();
      for (auto *U : FC->users()) { auto *S = dyn_cast<SelectInst>(U); if (!S || S->getCondition() != FC || fpk(S->getType()) < 0) { allsel = false; break; } }
      IRBuilder<> b(FC); mark(FC);
      if (allsel) {
        Value *c = b.CreateCall(cond[k], {b.getInt32(FC->getPredicate()), FC->getOperand(0), FC->getOperand(1)});
        std::vector<SelectInst *> us; for (auto *U : FC->users()) us.push_back(cast<SelectInst>(U));
        for (auto *S : us) { IRBuilder<> bs(S); int ks = fpk(S->getType());
          Value *r = bs.CreateCall(sel[ks], {c, S->getTrueValue(), S->getFalseValue()}); S->replaceAllUsesWith(r); dead.insert(S); nsel++; mark(S); }
        dead.insert(FC);
      } else {
        Value *r = b.CreateCall(cmp[k], {b.getInt32(FC->getPredicate()), FC->getOperand(0), FC->getOperand(1)});
        FC->replaceAllUsesWith(r); dead.insert(FC); nrew++;
      }
    }
    for (auto *I : W) {
      if (dead.count(I)) continue;
      IRBuilder<> b(I); Value *R = nullptr;
      if (auto *BO = dyn_cast<BinaryOperator>(I)) {
        int k = fpk(BO->getType()); if (k < 0) continue;
        int op = -1; switch (BO->getOpcode()) { case Instruction::FAdd: op = 0; break; case Instruction::FSub: op = 1; break; case Instruction::FMul: op = 2; break; case Instruction::FDiv: op = 3; break; case Instruction::FRem: return refuse("frem", I); default: break; }
        if (op < 0) continue;
        R = b.CreateCall(bin[k], {b.getInt32(op), BO->getOperand(0), BO->getOperand(1)});
      } else if (auto *U = dyn_cast<UnaryOperator>(I)) {
        if (U->getOpcode() == Instruction::FNeg) { int k = fpk(U->getType()); if (k < 0) return refuse("fneg type", I); R = b.CreateCall(neg[k], {U->getOperand(0)}); }
      } else if (auto *S = dyn_cast<FPToSIInst>(I)) {
        int k = fpk(S->getOperand(0)->getType()); if (k < 0) return refuse("fptosi type", I);
        Value *v = b.CreateCall(f2i[k], {S->getOperand(0)}); R = S->getType() == I64 ? v : b.CreateTrunc(v, S->getType());
      } else if (auto *S = dyn_cast<FPToUIInst>(I)) {
        int k = fpk(S->getOperand(0)->getType()); if (k < 0) return refuse("fptoui type", I);
        Value *v = b.CreateCall(f2i[k], {S->getOperand(0)}); R = S->getType() == I64 ? v : b.CreateTrunc(v, S->getType());
      } else if (auto *X = dyn_cast<FPExtInst>(I)) {
        if (!X->getType()->isDoubleTy() || !X->getOperand(0)->getType()->isFloatTy()) return refuse("fpext type", I);
        R = b.CreateCall(ext, {X->getOperand(0)});
      } else if (auto *X = dyn_cast<FPTruncInst>(I)) {
        if (!X->getType()->isFloatTy() || !X->getOperand(0)->getType()->isDoubleTy()) return refuse("fptrunc type", I);
        R = b.CreateCall(trunc, {X->getOperand(0)});
      } else if (auto *BC = dyn_cast<BitCastInst>(I)) {
        Type *s = BC->getSrcTy(), *d = BC->getDestTy();
        if ((s->isFloatingPointTy() && d->isIntegerTy()) || (s->isIntegerTy() && d->isFloatingPointTy())) return refuse("FP<->int bitcast", I);
      } else if (auto *CI = dyn_cast<CallInst>(I)) {
        Function *cf = CI->getCalledFunction();
        if (!cf) continue;
        std::string nm = cf->getName().str();
        if (cf->isIntrinsic()) {
          switch (cf->getIntrinsicID()) {
            case Intrinsic::fabs: nm = "fabs"; break; case Intrinsic::sqrt: nm = "sqrt"; break; case Intrinsic::log: nm = "log"; break;
            case Intrinsic::exp: nm = "exp"; break; case Intrinsic::floor: nm = "floor"; break; case Intrinsic::ceil: nm = "ceil"; break;
            case Intrinsic::pow: nm = "pow"; break;
            case Intrinsic::memcpy: case Intrinsic::memmove: case Intrinsic::memset:
              if (storeMon && isLib) { b.CreateCall(storeChk, {b.CreateBitCast(CI->getArgOperand(0), I8P), b.CreateZExtOrTrunc(CI->getArgOperand(2), I64)}); nstore++; }
              continue;
            default:
              if (CI->getType()->isFloatingPointTy()) return refuse("unknown FP intrinsic", I);
              for (auto &A : CI->args()) if (A->getType()->isFloatingPointTy()) return refuse("unknown FP intrinsic", I);
              continue;
          }
        }
        int k = fpk(CI->getType());
        std::string base = nm; if (k == 1 && !nm.empty() && nm.back() == 'f' && nm != "fabsf" ) base = nm.substr(0, nm.size() - 1); if (nm == "fabsf") base = "fabs";
        if (k >= 0 && unaryIdx.count(base) && CI->arg_size() == 1 && fpk(CI->getArgOperand(0)->getType()) == k) {
          R = b.CreateCall(un[k], {b.getInt32(unaryIdx[base]), CI->getArgOperand(0)});
        } else if (k >= 0 && base == "pow" && CI->arg_size() == 2) {
          R = b.CreateCall(pw[k], {CI->getArgOperand(0), CI->getArgOperand(1)});
        } else if (nm == "malloc") { R = b.CreateCall(symMalloc, {b.CreateZExtOrTrunc(CI->getArgOperand(0), I64)}); nheap++;
        } else if (nm == "calloc") { R = b.CreateCall(symCalloc, {b.CreateZExtOrTrunc(CI->getArgOperand(0), I64), b.CreateZExtOrTrunc(CI->getArgOperand(1), I64)}); nheap++;
        } else if (nm == "realloc") { R = b.CreateCall(symRealloc, {CI->getArgOperand(0), b.CreateZExtOrTrunc(CI->getArgOperand(1), I64)}); nheap++;
        } else if (nm == "free") { b.CreateCall(symFree, {CI->getArgOperand(0)}); nheap++; I->eraseFromParent(); continue;
        } else {
          if (storeMon && isLib && (nm == "memcpy" || nm == "memset" || nm == "memmove") && CI->arg_size() == 3) {
            b.CreateCall(storeChk, {b.CreateBitCast(CI->getArgOperand(0), I8P), b.CreateZExtOrTrunc(CI->getArgOperand(2), I64)}); nstore++; }
          if (cf->isDeclaration() && !StringRef(nm).startswith("__sym_") && !StringRef(nm).startswith("slusym_")) {
            bool fp = CI->getType()->isFloatingPointTy(); for (auto &A : CI->args()) if (A->getType()->isFloatingPointTy()) fp = true;
            if (fp && !extSeen.count(nm)) { extSeen.insert(nm); extFP.push_back(nm); }
          }
          continue;
        }
      } else if (auto *ST = dyn_cast<StoreInst>(I)) {
        if (isLib) {
          const Value *U = getUnderlyingObject(ST->getPointerOperand());
          if (auto *G = dyn_cast<GlobalVariable>(U)) {
            unsigned ln = ST->getDebugLoc() ? ST->getDebugLoc().getLine() : 0;
            globStores.push_back("{\"function\":\"" + jsonesc(F.getName()) + "\",\"global\":\"" + jsonesc(G->getName()) + "\",\"line\":" + std::to_string(ln) + "}");
          }
          if (storeMon) { uint64_t sz = DL.getTypeStoreSize(ST->getValueOperand()->getType());
            b.CreateCall(storeChk, {b.CreateBitCast(ST->getPointerOperand(), I8P), b.getInt64(sz)}); nstore++; }
        }
        continue;
      } else if (isa<AtomicRMWInst>(I) || isa<AtomicCmpXchgInst>(I)) {
        if (isLib) globStores.push_back("{\"function\":\"" + jsonesc(F.getName()) + "\",\"global\":\"<atomic>\",\"line\":0}");
        continue;
      } else continue;
      if (R) { mark(I); if (R != I) { I->replaceAllUsesWith(R); I->eraseFromParent(); } nrew++; }
    }
    for (auto *I : dead) I->eraseFromParent();
    if (isLib) for (auto *B : fpBlocks) {
      IRBuilder<> b(&*B->getFirstInsertionPt()); b.CreateCall(reach, {b.getInt32(reachId)});
      std::string file; if (auto *SP = F.getSubprogram()) file = SP->getFilename().str();
      reachTab.push_back("{\"id\":" + std::to_string(reachId) + ",\"function\":\"" + jsonesc(F.getName()) + "\",\"file\":\"" + jsonesc(file) + "\",\"line\":" + std::to_string(blockLine.count(B) ? blockLine[B] : 0) + "}");
      reachId++;
    }
  }
  if (verifyModule(*M, &errs())) { errs() << "slusym-instr: verify failed\n"; return 1; }
  std::error_code EC; raw_fd_ostream O(pos[1], EC, sys::fs::OF_None); WriteBitcodeToFile(*M, O);
  if (!table.empty()) {
    raw_fd_ostream T(table, EC, sys::fs::OF_None);
    T << "{\"rewritten\":" << nrew << ",\"select_merged\":" << nsel << ",\"heap_calls\":" << nheap << ",\"store_checks\":" << nstore << ",\n \"functions\":[";
    bool first = true; for (auto &F : *M) if (!F.isDeclaration() && F.hasFnAttribute("slulib")) { T << (first ? "" : ",") << "\"" << jsonesc(F.getName()) << "\""; first = false; }
    T << "],\n \"external_fp_calls\":["; for (size_t i = 0; i < extFP.size(); i++) T << (i ? "," : "") << "\"" << jsonesc(extFP[i]) << "\"";
    T << "],\n \"global_stores\":["; for (size_t i = 0; i < globStores.size(); i++) T << (i ? "," : "") << globStores[i];
    T << "],\n \"lib_globals\":["; first = true; for (auto &G : M->globals()) if (G.getSection() == "slulib_data") { T << (first ? "" : ",") << "\"" << jsonesc(G.getName()) << "\""; first = false; }
    T << "],\n \"reach\":[\n  "; for (size_t i = 0; i < reachTab.size(); i++) T << (i ? ",\n  " : "") << reachTab[i];
    T << "]}\n";
  }
  errs() << "slusym-instr: rewrote " << nrew << " ops, merged " << nsel << " selects, " << nheap << " heap calls, " << nstore << " store checks, " << reachId << " reach blocks\n";
  return 0;
}
