/* slusym.h — intrinsics available to E2 harnesses (implemented in rt.cpp).
 * All floating-point values cross this interface as double; float harnesses convert with ordinary
 * casts (the casts are instrumented like every other FP operation). */
#ifndef SLUSYM_H
#define SLUSYM_H
#ifdef __cplusplus
extern "C" {
#endif
/* inputs ------------------------------------------------------------------------------------- */
double slusym_real(const char *name);                 /* fresh symbolic input, |x| <= DBL_MAX */
double slusym_real_f(const char *name);               /* fresh symbolic input, |x| <= FLT_MAX */
void   slusym_input_gap(int on);                      /* on: also assume x == 0 or |x| >= min subnormal */
int    slusym_is_symbolic(void);                      /* 1 in symbolic mode, 0 in concrete (replay) mode */
/* assumptions / obligations ------------------------------------------------------------------ */
/* pred: 1 ==, 2 >, 3 >=, 4 <, 5 <=, 6 != (LLVM fcmp ordered numbering) */
void slusym_assume_cmp(int pred, double a, double b);
void slusym_assert_cmp(int pred, double a, double b, double scale, const char *id);
void slusym_assert_zero(double v, double scale, const char *id);     /* pc |= v == 0 */
void slusym_assert_or2(int p1, double a1, double b1, int p2, double a2, double b2, const char *id); /* pc |= (a1 p1 b1) or (a2 p2 b2) */
void slusym_assert_nonzero(double v, const char *id);                /* pc |= v != 0 */
void slusym_assert_true(int cond, const char *id);                   /* concrete (integer) fact on this path */
void slusym_assert_same(double a, double b, const char *id);         /* identical term / identical bits */
int  slusym_same(double a, double b);                                /* 1 iff identical term / bits */
int  slusym_entails_zero(double v);                                  /* 1 iff pc |= v == 0 (0 if unknown) */
void slusym_note(const char *key, long value);                       /* goes into the PATH record */
void slusym_outside(const char *why);                                /* end the path: outside the claim */
void slusym_done(void);
/* heap ledger -------------------------------------------------------------------------------- */
long slusym_heap_mark(void);
void slusym_heap_assert_clean(long mark, const char *id);            /* no block allocated after mark is live */
void slusym_fail_malloc_at(long k);                                  /* k-th request from now returns NULL (k>=1); 0 = off */
long slusym_malloc_count(void);
/* workspace confinement: stores by library code into [guard_lo,lo) or [hi,guard_hi) are violations */
void *slusym_workspace(long lwork, long align_off);                  /* returns work pointer inside a guarded arena */
void slusym_workspace_check(const char *id);                         /* canaries intact? */
/* C09: mutable-global monitor is always on when built with --store-monitor */
long slusym_global_store_count(void);
#ifdef __cplusplus
}
#endif
#endif
