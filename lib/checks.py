"""Per-property checks. Each function fills a Check and returns; run() writes evidence and the exit code."""
import os, sys, json, time
from checklib import Check, VERIF, REPO
import cases as C
from e2phase import run_phase

H = VERIF + "/harness/e2/"
T = C.TUNINGS
COMMON_ASSUME = [
    "floating-point layer X: + - * / are exact over the reals inside symbolic paths (rounding, overflow, underflow not modelled); the step to the property's c*n*eps bound is Higham's backward-error theorem (trusted, DESIGN 5)",
    "symbolic inputs range over [-MAX_FINITE, MAX_FINITE] of the precision under test",
    "integer control (patterns, options, tuning) is enumerated within the stated bounds, not symbolic; everything outside the enumerated case set is outside the claim",
    "clang-14 -O1 IR of /repo sources, rewritten by slusym-instr; Z3 4.8.12 decides every branch feasibility and obligation (cvc5 re-checks unknowns)",
]


CPLX_ENV = {"SLUSYM_NAMEDIV": "1"}   # complex: purify divisions (q*y == x) -- helps nlsat on Smith's quotient


# library functions in which a division by a value that can be exactly zero on a feasible path is a violation (pivot chosen / solved with without being known nonzero):
# the pivoting kernel, the numeric update kernels and the triangular solves (real precisions; the complex quotient routine's own case split is undecided too often)
DIV0_FN = r"^([sd]pivotL|[sd]gstrs|sp_[sd]trsv|[sd]usolve|[sd]lsolve|[sd]snode_bmod|[sd]column_bmod|[sd]panel_bmod|[sd]trsv_?|[sd]trsm_?)$"


def fcase(m, n, pat, colperm=0, permidx=0, sym=0, tune="t111", umode=0, flags=0, symcols=-1, lwork=0, woff=0, failat=0):
    t = T[tune] if isinstance(tune, str) else tune
    if C.structural_rank(m, n, pat) < n: flags |= 2
    return (m, n, hex(pat), colperm, permidx, sym) + tuple(t) + (umode, flags, symcols) + ((lwork, woff, failat) if (lwork or failat) else ())


def etree_reach_cases(tier):
    cs = []
    for n_ in ((6, 8, 9) if tier == "quick" else (6, 7, 8, 9, 10, 12)):
        fam = C.symm_family(n_, 60 if tier == "quick" else 300, density=2) + C.symm_family(n_, 60 if tier == "quick" else 300, seed=777, density=3) + C.symm_family(n_, 30 if tier == "quick" else 200, seed=99, density=4)
        for pat in fam:
            for sym_, cp in ((1, 0), (1, 2)) + (((0, 3),) if (pat >> 5) & 1 else ()):
                cs.append(fcase(n_, n_, pat, sym=sym_, colperm=cp, tune="t_sym" if (pat >> 3) & 1 else "t_dflt", symcols=1 << (n_ - 1)))
    return cs


def reach_cases(tier):
    """kernel-reach cases: only the columns in symcols are symbolic, the rest hold fixed generic values, so the pivot order of the concrete part
    is fixed and the wide (>=4 / 8-column) update kernels, sup-col updates and 2-D blocking execute with symbolic operands"""
    cs = []
    shapes = [(5, C.dense(5, 5)), (6, C.band(6, 2, 2)), (5, C.arrow(5)), (7, C.dense(7, 7)), (10, C.dense(10, 10)), (10, C.band(10, 4, 1))] if tier == "quick" else \
             [(4, C.dense(4, 4)), (5, C.dense(5, 5)), (6, C.band(6, 2, 2)), (5, C.arrow(5)), (6, C.dense(6, 6)), (9, C.band(9, 1, 1)), (9, C.arrow(9)), (9, C.dense(9, 9)), (10, C.dense(10, 10))]
    tun = ("tn1n", "t122", "t313", "t1_8_8", "t4_1_8_2d", "t2_4_4") if tier == "quick" else ("tn1n", "t122", "t313", "t1nn_f1", "t111", "t212", "t1_8_8", "t4_1_8_2d", "t2_4_4")
    for n_, pat in shapes:
        for tn in tun:
            cs.append(fcase(n_, n_, pat, tune=tn, symcols=1 << (n_ - 1)))
            cs.append(fcase(n_, n_, pat, tune=tn, symcols=3 << (n_ - 2)))
            if tier != "quick": cs.append(fcase(n_, n_, pat, tune=tn, symcols=1 << (n_ // 2)))
    # the same with the rows stored in scrambled order: the pivots of the concrete part lie far from the diagonal and the row lists of the supernodes are not consecutive integers
    # (index expressions such as lsub[k - 1] vs lsub[k] - 1 differ only then)
    for n_, pat in ([(7, C.dense(7, 7)), (10, C.dense(10, 10)), (10, C.band(10, 4, 1)), (6, C.band(6, 2, 2))] if tier == "quick" else [(5, C.dense(5, 5)), (7, C.dense(7, 7)), (9, C.dense(9, 9)), (10, C.dense(10, 10)), (10, C.band(10, 4, 1)), (6, C.band(6, 2, 2)), (9, C.arrow(9))]):
        for tn in ("t4_1_8_2d", "t2_4_4", "t313", "tn1n", "t133") if tier == "quick" else tun + ("t133",):
            cs.append(fcase(n_, n_, pat, tune=tn, symcols=1 << (n_ - 1), flags=8)); cs.append(fcase(n_, n_, pat, tune=tn, symcols=3 << (n_ - 2), flags=8))
    return cs + etree_reach_cases(tier)


def factor_cases(tier, purpose="C02", prec="d"):
    cs = []
    cplx = prec in "zc"
    if cplx and tier == "quick":
        # complex: path conditions over |re|+|im| and Smith's quotient are hard for nlsat when everything is symbolic, so dense shapes use one
        # symbolic column (the rest generic concrete), fully symbolic only up to 3 stored entries
        for pat in C.all_patterns(1, 1): cs.append(fcase(1, 1, pat, umode=0))
        for pat in C.all_patterns(2, 2):
            for tn in ("t111", "t122"):
                for sc in (1, 2): cs.append(fcase(2, 2, pat, tune=tn, umode=0, symcols=sc))
            if bin(pat).count("1") <= 3: cs.append(fcase(2, 2, pat, tune="t122", umode=2))
        for pat in (63, 47, 31, 55): cs.append(fcase(3, 2, pat, tune="t122", umode=0, symcols=2))
        for pat in (511, C.band(3, 1, 1), C.arrow(3)):
            for sc in (1, 4): cs.append(fcase(3, 3, pat, tune="t122", umode=0, symcols=sc))
        for tn in ("tn1n", "t122", "t4_1_8_2d"): cs.append(fcase(5, 5, C.dense(5, 5), tune=tn, symcols=16))
        return list(dict.fromkeys(cs))
    um = 0 if cplx else 1          # complex: u = 1 and u = 0.5 (a symbolic threshold adds another nonlinear factor)
    for pat in C.all_patterns(2, 2):
        for tn in ("t111", "t212", "t122", "t1nn_f1", "t221_f1"): cs.append(fcase(2, 2, pat, tune=tn, umode=um))
        cs.append(fcase(2, 2, pat, colperm=4, permidx=1, tune="t122", umode=2))
    if not cplx:
        for pat in C.all_patterns(2, 2):
            for tn in ("t111", "t122"): cs.append(fcase(2, 2, pat, tune=tn, umode=3))          # u = 0.0 exactly (documented end of the range): a zero diagonal must still not be chosen
        for pat in (511, C.band(3, 1, 1), C.arrow(3), C.arrow(3, False)) + tuple(C.full_diag_plus(3, 2)[:: (2 if tier == "quick" else 1)]): cs.append(fcase(3, 3, pat, tune="t212", umode=3)); cs.append(fcase(3, 3, pat, tune="t122", umode=3))
    for pat in C.all_patterns(3, 2): cs.append(fcase(3, 2, pat, tune="t122", umode=0))      # tall through the factor routine
    for pat in C.all_patterns(2, 1): cs.append(fcase(2, 1, pat, tune="t111", umode=0))
    for pat in C.all_patterns(1, 1): cs.append(fcase(1, 1, pat, umode=um))
    p3 = C.all_patterns(3, 3)
    special = (511, C.band(3, 1, 1), C.arrow(3), C.arrow(3, False))
    rank3 = [p for p in p3 if C.structural_rank(3, 3, p) == 3]
    if tier == "quick":
        if purpose == "C04":
            for pat in p3: cs.append(fcase(3, 3, pat, tune="t122"))
            for pat in special: cs.append(fcase(3, 3, pat, tune="t212", umode=um))
        elif purpose == "C03":
            for pat in rank3:
                if bin(pat).count("1") <= 5: cs.append(fcase(3, 3, pat, tune="t212"))
            for pat in special:
                for tn in T: cs.append(fcase(3, 3, pat, tune=tn))
                for cp in (1, 2, 3): cs.append(fcase(3, 3, pat, colperm=cp, tune="t122"))
        else:
            for pat in rank3:
                if bin(pat).count("1") <= 6: cs.append(fcase(3, 3, pat, tune="t122"))
            for pat in C.full_diag_plus(3, 3): cs.append(fcase(3, 3, pat, tune="t212", umode=um))
            for pat in special:
                for tn in ("t111", "tn1n", "t1nn_f1", "t313", "t133"): cs.append(fcase(3, 3, pat, tune=tn, umode=um))
                for cp in (1, 2, 3): cs.append(fcase(3, 3, pat, colperm=cp, tune="t122"))
                for k in range(6): cs.append(fcase(3, 3, pat, colperm=4, permidx=k, tune="t212"))
                cs.append(fcase(3, 3, pat, sym=1, colperm=2, tune="t122", umode=2))
        cs += reach_cases(tier)
    else:
        for pat in p3:
            for tn in T: cs.append(fcase(3, 3, pat, tune=tn))
        for pat in C.full_diag_plus(3, 6):
            for k in range(6): cs.append(fcase(3, 3, pat, colperm=4, permidx=k, tune="t122", umode=um))
            for cp in (1, 2, 3): cs.append(fcase(3, 3, pat, colperm=cp, tune="t212", umode=um))
            cs.append(fcase(3, 3, pat, sym=1, colperm=2, tune="t122", umode=2))
        if not cplx:
            for pat in C.full_diag_plus(4, 3) + [C.dense(4, 4), C.arrow(4), C.band(4, 1, 1), C.band(4, 2, 1)]:
                for tn in ("t111", "t122", "tn1n", "t1nn_f1"): cs.append(fcase(4, 4, pat, tune=tn))
            for pat in C.all_patterns(4, 2)[::3]: cs.append(fcase(4, 2, pat, tune="t122"))
        cs += reach_cases(tier)
    return list(dict.fromkeys(cs))


FACTOR_BOUNDS = "m x n <= 3x3 (all/selected patterns per tier, see cases), tall 3x2, dominance-restricted reach cases n<=6 (quick) / n<=9 (thorough); tunings " + json.dumps(T)


def precs(tier, names="dz"):
    return list(names) if tier == "quick" else list("dszc")


def check_factor(chk, prefixes, tier, purpose, crash=False):
    for prec in precs(tier):
        cs = factor_cases(tier, purpose, prec)
        qb = {"C04": {"d": 170, "z": 80}}.get(purpose, {}).get(prec, 200)      # C04 also runs two driver phases: keep the quick tier's total near five minutes
        run_phase(chk, "factor/" + prec, H + "h_factor.c", cs, prefixes, prec=prec, budget_s=qb if tier == "quick" else 2400, bounds=FACTOR_BOUNDS, crash_is_violation=crash, div0_functions=DIV0_FN if prec in "ds" else None,
                  qtimeout_ms=(3000 if prec in "zc" else 10000) if tier == "quick" else 60000, env=CPLX_ENV if prec in "zc" else None)
    if tier != "quick":
        cs = factor_cases(tier, purpose, "d")
        run_phase(chk, "factor/d/vendor-blas", H + "h_factor.c", [c for c in cs if c[1] >= 3][::2], prefixes, prec="d", vendor=True, budget_s=1200, bounds=FACTOR_BOUNDS + "; USE_VENDOR_BLAS code path with reference BLAS", qtimeout_ms=60000)
        run_phase(chk, "factor/d/index64", H + "h_factor.c", [c for c in cs if c[1] >= 3][::4], prefixes, prec="d", idx64=True, budget_s=1200, bounds=FACTOR_BOUNDS + "; 64-bit int_t", qtimeout_ms=60000)


def check_C02(chk, tier):
    chk.assumptions += COMMON_ASSUME
    check_factor(chk, ["C02."], tier, "C02")


def c03_relax(chk, tier):
    """E1: relax_snode / heap_relax_snode for every elimination tree of order <= 5 (7 thorough) and every relax parameter"""
    chk.assumptions += ["E1 relaxed supernodes: the parent vector of the tree and the relax parameter are symbolic (heap-ordered trees; postordered ones for relax_snode, as ?gstrf passes them); a relaxed supernode must be a non-empty range, disjoint from the others, closed under children (?gstrf applies no update from earlier columns to it) and hold at most relax columns"]
    nb = 5 if tier == "quick" else 7
    src = [E1H + "h03relax.c"] + [REPO + "/SRC/" + f for f in ("relax_snode.c", "heap_relax_snode.c", "sp_coletree.c", "memory.c", "util.c")]
    hs = [e1.Harness("c03_relax_m%d_n%d" % (md, n), src, defs=["-DPREC_D", "-DNB=%d" % nb, "-DMODE=%d" % md, "-DFIX_N=%d" % n], unwind=nb + 3, timeout=1500) for md in (0, 1) for n in range(1, nb + 1)]
    e1.run_harnesses(chk, hs, "C03 relaxed supernodes for every elimination tree", "every heap-ordered (mode 1) / postordered (mode 0) elimination tree with n <= %d, relax parameter 1..%d" % (nb, nb + 1))


def check_C03(chk, tier):
    c03_relax(chk, tier)
    chk.assumptions += COMMON_ASSUME + ["structure clauses are integer facts evaluated on each symbolic path; the solver decides which pivot sequences (hence structures) are feasible"]
    check_factor(chk, ["C03."], tier, "C03")


def check_C04(chk, tier):
    chk.assumptions += COMMON_ASSUME + ["drivers: ?gssv (all 2x2 patterns, u in {symbolic [0,1], 0}, selected 3x3) and ?gssvx histories incl. SamePattern_SameRowPerm with u = 0 (a remembered pivot that is exactly zero must be abandoned, never divided by)"]
    check_factor(chk, ["C04."], tier, "C04")
    q = tier == "quick"
    gs = [c for c in gssv_cases(tier, "d", "C04") if c[0] <= 2] + [gcase(3, pat, tune=tn, umode=3, storage=st) for pat in (511, C.band(3, 1, 1), C.arrow(3), 0b011011011, 0b110110011) for tn, st in (("t212", 0), ("t122", 1))]
    if not q: gs += [c for c in gssv_cases(tier, "d", "C04") if c[0] == 3][::2]
    run_phase(chk, "gssv(singularity through the simple driver)/d", H + "h_gssv.c", list(dict.fromkeys(gs)), ["C04."], prec="d", budget_s=90 if q else 1500, bounds=GSSV_BOUNDS, div0_functions=DIV0_FN, qtimeout_ms=8000 if q else 60000, validate_samples=0)
    xs = []
    for pat in C.all_patterns(2, 2)[1:]:
        xs.append(xcase(2, pat, umode=1 if bin(pat).count("1") >= 3 else 3, growth=1, storage=(pat >> 2) & 1))
        if C.structural_rank(2, 2, pat) == 2: xs.append(xcase(2, pat, hist=13, umode=3)); xs.append(xcase(2, pat, hist=12, umode=3, storage=1, trans=2))
    xs += [xcase(3, C.band(3, 1, 1), hist=13, umode=3, symcols=6, tune="t212"), xcase(3, 511, hist=13, umode=3, symcols=4, tune="t122"), xcase(3, 0b011011011, umode=0, symcols=-1, tune="t122")]
    run_phase(chk, "gssvx(singularity through the expert driver, refactor histories with u = 0)/d", H + "h_gssvx.c", list(dict.fromkeys(xs)), ["C04.", "C06.Udiag.nonzero", "C05.info.range"], prec="d", budget_s=90 if q else 1200, bounds=GSSVX_BOUNDS, div0_functions=DIV0_FN,
              qtimeout_ms=8000 if q else 60000, validate_samples=0, key_extra=lambda c: {"storage": str(c[2]), "trans": str(c[16]), "hist": str(c[15])})


# ------------------------------------------------------------------------------------------------ C01 simple driver
def gcase(n, pat, storage=0, colperm=0, permidx=0, sym=0, tune="t111", umode=0, flags=0, symcols=-1, nrhs=1, ldbx=0):
    t = T[tune] if isinstance(tune, str) else tune
    if C.structural_rank(n, n, pat) < n: flags |= 2
    return (n, hex(pat), storage, colperm, permidx, sym) + tuple(t) + (umode, flags, symcols, nrhs, ldbx)


def gssv_cases(tier, prec="d", purpose="C01"):
    cs = []
    cplx = prec in "zc"
    special = (511, C.band(3, 1, 1), C.arrow(3), C.arrow(3, False))
    for pat in C.all_patterns(1, 1):
        for nr in (0, 1, 2): cs.append(gcase(1, pat, nrhs=nr, ldbx=nr % 2, umode=0 if cplx else 1))
    if cplx and tier == "quick":
        for pat in C.all_patterns(2, 2):
            for st in (0, 1):
                for sc in (1, 2, 0): cs.append(gcase(2, pat, storage=st, tune="t122", symcols=sc))
            if bin(pat).count("1") <= 3: cs.append(gcase(2, pat, tune="t111", nrhs=2, ldbx=1))
        for pat in special[:2]:
            for st in (0, 1): cs.append(gcase(3, pat, storage=st, tune="t122", symcols=4)); cs.append(gcase(3, pat, storage=st, tune="t212", symcols=0, nrhs=2, ldbx=1))
        for tn in ("tn1n", "t122", "t4_1_8_2d"): cs.append(gcase(5, C.dense(5, 5), tune=tn, symcols=0, nrhs=2)); cs.append(gcase(5, C.dense(5, 5), storage=1, tune=tn, symcols=16))
        return list(dict.fromkeys(cs))
    for pat in C.all_patterns(2, 2):
        for st in (0, 1):
            for tn in ("t111", "t122"): cs.append(gcase(2, pat, storage=st, tune=tn, umode=0 if cplx else 1))
    if not cplx:
        for pat in C.all_patterns(2, 2): cs.append(gcase(2, pat, tune="t122", umode=3, storage=(pat >> 1) & 1))     # u = 0.0 exactly
        for pat in (511, C.band(3, 1, 1), C.arrow(3)): cs.append(gcase(3, pat, tune="t212", umode=3)); cs.append(gcase(3, pat, tune="t122", umode=3, storage=1))
    cs.append(gcase(2, 15, nrhs=2, ldbx=1, tune="t212", umode=2)); cs.append(gcase(2, 15, storage=1, nrhs=2, ldbx=2, tune="t122")); cs.append(gcase(2, 15, nrhs=0))
    p3 = C.all_patterns(3, 3)
    if tier == "quick":
        if purpose == "C04":
            for pat in p3: cs.append(gcase(3, pat, tune="t122"))
        else:
            for pat in p3:
                if C.structural_rank(3, 3, pat) == 3 and bin(pat).count("1") <= 5: cs.append(gcase(3, pat, tune="t122"))
            for pat in special:
                for st in (0, 1):
                    for tn in ("t111", "t212", "tn1n", "t1nn_f1"): cs.append(gcase(3, pat, storage=st, tune=tn))
                for cp in (1, 2, 3): cs.append(gcase(3, pat, colperm=cp, tune="t122", storage=cp % 2))
                for k in (1, 3, 4): cs.append(gcase(3, pat, colperm=4, permidx=k, tune="t212"))
                cs.append(gcase(3, pat, sym=1, colperm=2, tune="t122", umode=2))
            cs.append(gcase(3, 511, nrhs=2, ldbx=1, tune="t122")); cs.append(gcase(3, 511, nrhs=3, ldbx=0, tune="tn1n", symcols=4))
    else:
        for pat in p3:
            for st in (0, 1): cs.append(gcase(3, pat, storage=st, tune="t122" if st else "t212"))
        for pat in C.full_diag_plus(3, 6):
            for tn in T: cs.append(gcase(3, pat, tune=tn, nrhs=2, ldbx=1))
            for cp in (1, 2, 3): cs.append(gcase(3, pat, colperm=cp, tune="t122", storage=cp % 2, umode=0 if cplx else 1))
            for k in range(6): cs.append(gcase(3, pat, colperm=4, permidx=k, tune="t212"))
        if not cplx:
            for pat in C.full_diag_plus(4, 2) + [C.dense(4, 4), C.arrow(4), C.band(4, 1, 1)]:
                for tn in ("t122", "tn1n"): cs.append(gcase(4, pat, tune=tn, storage=(pat >> 3) & 1))
    # etree-shape reach: structurally symmetric families under SymmetricMode (heap_relax_snode) and plain mode (relax_snode), concrete A, symbolic B
    for n_ in ((6, 8, 9) if tier == "quick" else (6, 7, 8, 9, 10, 12)):
        fam = C.symm_family(n_, 60 if tier == "quick" else 300, density=2) + C.symm_family(n_, 60 if tier == "quick" else 300, seed=777, density=3) + C.symm_family(n_, 30 if tier == "quick" else 200, seed=99, density=4)
        for pat in fam:
            for sym_, cp in ((1, 0), (1, 2)) + (((0, 0),) if (pat >> 5) & 1 else ()):
                cs.append(gcase(n_, pat, sym=sym_, colperm=cp, tune="t_sym" if (pat >> 3) & 1 else "t_dflt", symcols=0, nrhs=1))
    # kernel reach: concrete A with symbolic right-hand sides (solve kernels), and symbolic trailing columns (factor kernels)
    shapes = [(5, C.dense(5, 5)), (6, C.band(6, 2, 2)), (7, C.dense(7, 7)), (10, C.dense(10, 10)), (10, C.band(10, 4, 1))] if tier == "quick" else \
             [(4, C.dense(4, 4)), (5, C.dense(5, 5)), (6, C.band(6, 2, 2)), (5, C.arrow(5)), (7, C.dense(7, 7)), (9, C.band(9, 1, 1)), (9, C.arrow(9)), (10, C.dense(10, 10)), (10, C.band(10, 4, 1)), (12, C.dense(12, 12))]
    for n_, pat in shapes:
        for tn in ("tn1n", "t122", "t313", "t1_8_8", "t4_1_8_2d", "t2_4_4"):
            for st in (0, 1):
                cs.append(gcase(n_, pat, storage=st, tune=tn, symcols=0, nrhs=2, ldbx=st))
                if tier != "quick" or tn in ("tn1n", "t1_8_8"): cs.append(gcase(n_, pat, storage=st, tune=tn, symcols=1 << (n_ - 1), nrhs=1))
    return list(dict.fromkeys(cs))


GSSV_BOUNDS = "n <= 3 fully symbolic (patterns per tier), reach cases n <= 10 (12 thorough) with concrete A / symbolic trailing columns and symbolic B; nrhs <= 3, ldb <= n+2; NC and NR storage; orderings NATURAL/MMD_ATA/MMD_AT_PLUS_A/COLAMD/MY_PERMC"


def check_gssv(chk, prefixes, tier, purpose):
    for prec in precs(tier):
        cs = gssv_cases(tier, prec, purpose)
        run_phase(chk, "gssv/" + prec, H + "h_gssv.c", cs, prefixes, prec=prec, budget_s=200 if tier == "quick" else 2400, bounds=GSSV_BOUNDS, div0_functions=DIV0_FN if prec in "ds" else None,
                  qtimeout_ms=(3000 if prec in "zc" else 10000) if tier == "quick" else 60000, env=CPLX_ENV if prec in "zc" else None)
    if tier != "quick":
        cs = gssv_cases(tier, "d", purpose)
        run_phase(chk, "gssv/d/vendor-blas", H + "h_gssv.c", [c for c in cs if c[0] >= 3][::2], prefixes, prec="d", vendor=True, budget_s=1200, bounds=GSSV_BOUNDS + "; USE_VENDOR_BLAS path, reference BLAS", qtimeout_ms=60000)
        run_phase(chk, "gssv/d/index64", H + "h_gssv.c", [c for c in cs if c[0] >= 3][::4], prefixes, prec="d", idx64=True, budget_s=1200, bounds=GSSV_BOUNDS + "; 64-bit int_t", qtimeout_ms=60000)


def check_C01(chk, tier):
    chk.assumptions += COMMON_ASSUME
    check_gssv(chk, ["C01."], tier, "C01")


# ------------------------------------------------------------------------------------------------ expert driver (C05, C06, parts of C12/C13/C08)
def xcase(n, pat, storage=0, colperm=0, permidx=0, tune="t122", umode=0, symcols=-1, nrhs=1, ldbx=0, hist=1, trans=1, equil=0, refine=0, cond=0, growth=0, lworkmode=0, ldxx=None, scalemode=0):
    t = T[tune] if isinstance(tune, str) else tune
    return (n, hex(pat), storage, colperm, permidx) + tuple(t) + (umode, symcols, nrhs, ldbx, hist, trans, equil, refine, cond, growth, lworkmode, ldbx if ldxx is None else ldxx) + ((scalemode,) if scalemode else ())


def gssvx_cases(tier, prec="d", purpose="C05"):
    cs = []
    cplx = prec in "zc"; q = tier == "quick"
    tri = (0b1011, 0b1101, 0b1001)   # upper, lower, diagonal 2x2 (bit j*2+i)
    if purpose == "C05":
        for st in (0, 1):
            for tr in (1, 2, 3):
                for eq in (0, 1):
                    cs.append(xcase(1, 1, storage=st, trans=tr, equil=eq, refine=0 if cplx else 2 * eq, cond=0 if cplx else eq, growth=eq))
                    if cplx and q:
                        cs.append(xcase(2, 0b1101, storage=st, trans=tr, equil=eq, symcols=2))
                        cs.append(xcase(2, 15, storage=st, trans=tr, equil=eq, symcols=0, nrhs=2, ldbx=1, ldxx=2, growth=1))
                        continue
                    for pat in (15,) + tri:
                        if eq == 0: cs.append(xcase(2, pat, storage=st, trans=tr, umode=0 if cplx else 1))
                        else:
                            for sc in (1, 2): cs.append(xcase(2, pat, storage=st, trans=tr, equil=1, symcols=sc))
                    if eq and not cplx: cs.append(xcase(2, 0b1001, storage=st, trans=tr, equil=1))                      # diagonal, fully symbolic: all four outcomes N/R/C/B
                    cs.append(xcase(2, 15, storage=st, trans=tr, equil=eq, symcols=0, nrhs=2, ldbx=1, ldxx=2, refine=0, cond=1, growth=1))
                    if st == 0 and tr < 3: cs.append(xcase(2, 15, storage=st, trans=tr, equil=eq, symcols=0, nrhs=1, refine=2))
                    cs.append(xcase(3, 511, storage=st, trans=tr, equil=eq, symcols=0, nrhs=2, ldbx=0, ldxx=1, refine=0, cond=1, growth=1, tune="t212"))
        # badly scaled concrete matrices: equilibration really happens (equed R, C, B), several right-hand sides, ldb != ldx, every Trans x storage; histories ending in FACTORED re-solves with the kept equed
        for st in (0, 1):
            for tr in (1, 2, 3):
                for sm in (1, 2, 3):
                    cs.append(xcase(3, 511, storage=st, trans=tr, equil=1, symcols=0, nrhs=2, ldbx=1 + (sm & 1), ldxx=2 - (sm & 1), scalemode=sm, tune="t212", growth=1))
                    if not cplx or not q: cs.append(xcase(4, C.band(4, 1, 2), storage=st, trans=tr, equil=1, symcols=0, nrhs=3, ldbx=0, ldxx=2, scalemode=sm, tune="t122", hist=14, cond=0))
        if not cplx:
            for sm in (1, 3): cs.append(xcase(3, C.band(3, 1, 1), equil=1, symcols=0, nrhs=1, refine=2, scalemode=sm, trans=2)); cs.append(xcase(2, 15, equil=1, symcols=2, nrhs=2, ldbx=1, ldxx=0, scalemode=sm, trans=2, storage=sm >> 1))
        if not cplx:
            for pat in (511, C.band(3, 1, 1), C.arrow(3)):
                for st, tr in ((0, 1), (0, 2), (1, 1), (1, 3)): cs.append(xcase(3, pat, storage=st, trans=tr, tune="t122" if st else "t212"))
                if pat == C.band(3, 1, 1): cs.append(xcase(3, pat, equil=1, symcols=4, trans=2)); cs.append(xcase(3, pat, equil=1, symcols=1, storage=1))
            for cp in (1, 2, 3): cs.append(xcase(3, C.band(3, 1, 1), colperm=cp, trans=2))
            cs.append(xcase(2, 15, cond=1, symcols=2)); cs.append(xcase(2, 15, growth=1)); cs.append(xcase(2, 0b1101, growth=1, equil=1, symcols=1, storage=1, trans=2))
            for n_, pat in ((5, C.dense(5, 5)), (6, C.band(6, 2, 2))):
                for st in (0, 1):
                    for tr in (1, 2): cs.append(xcase(n_, pat, storage=st, trans=tr, equil=1, symcols=0, nrhs=2, ldbx=1, ldxx=0, refine=0, cond=1, growth=1, tune="tn1n"))
        if not q:
            for pat in C.all_patterns(2, 2):
                for st in (0, 1):
                    for tr in (1, 2, 3): cs.append(xcase(2, pat, storage=st, trans=tr, equil=1)); cs.append(xcase(2, pat, storage=st, trans=tr, cond=1, growth=1)); cs.append(xcase(2, pat, storage=st, trans=tr, refine=2, symcols=2))
            for pat in C.full_diag_plus(3, 3):
                for st, tr in ((0, 1), (0, 2), (1, 1), (1, 3)): cs.append(xcase(3, pat, storage=st, trans=tr)); cs.append(xcase(3, pat, storage=st, trans=tr, equil=1, symcols=4))
    elif purpose == "C06":
        if cplx and q:
            for h, tr in ((14, 13), (13, 12), (12, 21)): cs.append(xcase(2, 0b1101, hist=h, trans=tr, symcols=2)); cs.append(xcase(2, 15, hist=h, trans=tr, symcols=0, nrhs=2, ldbx=1))
            return list(dict.fromkeys(cs))
        hs2 = (12, 13, 14) if q else (12, 13, 14, 11); hs3 = (124, 134) if q else (124, 134, 123, 132, 144)
        for h in hs2 + hs3:
            for pat in (15, 0b1101):
                cs.append(xcase(2, pat, hist=h, trans=121 if h >= 100 else 12, umode=0 if cplx else 1, symcols=-1 if h < 100 and not cplx else 2))
                if pat == 0b1101 or not q: cs.append(xcase(2, pat, hist=h, trans=213 if h >= 100 else 21, storage=1, equil=1, symcols=2, tune="t1nn_f1"))
            cs.append(xcase(3, 511, hist=h, trans=12, symcols=4, tune="t1nn_f1", nrhs=2, ldbx=1))
            cs.append(xcase(3, C.band(3, 1, 1), hist=h, trans=21, symcols=-1 if h in (14,) and not cplx else 4, tune="t122", colperm=2))
        if not cplx:
            cs.append(xcase(2, 15, hist=13, umode=2)); cs.append(xcase(3, 511, hist=13, symcols=6, tune="t212"))
            # fill-changing refactorization: arrow pattern with the tip first, first column symbolic, fill estimate 1 -- the remembered row order can be abandoned for one that
            # fills the matrix, so the storage adopted from the previous factors has to grow during the SamePattern_SameRowPerm step
            for n_, tn, h, tr in ((4, "t1nn_f1", 13, 12), (4, "t221_f1", 134, 121)) if q else ((4, "t1nn_f1", 13, 12), (4, "t221_f1", 134, 121), (5, "t1nn_f1", 134, 121), (5, "t221_f1", 13, 12), (4, "t1nn_f1", 1334, 1211)):
                cs.append(xcase(n_, C.arrow(n_, False), hist=h, trans=tr, symcols=1, tune=tn, nrhs=1))
            for pat in (15, 0b1101, 0b1011, 0b0111): cs.append(xcase(2, pat, hist=13, umode=3)); cs.append(xcase(2, pat, hist=12, umode=3, storage=1))     # u = 0.0: a remembered / diagonal pivot that is exactly zero must be abandoned
            cs.append(xcase(3, C.band(3, 1, 1), hist=13, umode=3, symcols=6, tune="t212")); cs.append(xcase(3, 511, hist=134, trans=121, umode=3, symcols=4, tune="t122"))
            for n_, pat in ((5, C.dense(5, 5)), (6, C.band(6, 2, 2))):
                for h in (134, 124, 1234): cs.append(xcase(n_, pat, hist=h, trans=1213, symcols=1 << (n_ - 1), tune="t1nn_f1", equil=0, refine=0))
            # fill-changing refactorization in the large: L-shaped pattern (dense first column + dense last row + diagonal), concrete values steered so that the first factorization
            # keeps the diagonal (no fill) and every later one pivots on the dense row (complete fill): the storage adopted by SamePattern_SameRowPerm grows during the refactor step
            # (library allocation: blocks are reallocated; caller workspace: arrays slide in place, vacated bytes poisoned by the repo's guarded hook); B symbolic
            big = []
            for n_ in ((8,) if q else (6, 8, 10, 12)):
                for tn in ("t112_f1", "t214_f1"):
                    for lw in (0, 6000 if n_ <= 8 else 12000):
                        for h, tr in ((134, 121), (13, 12)) if q else ((134, 121), (13, 12), (1334, 1213), (1234, 1213) if lw == 0 else (1343, 1211)):
                            big.append(xcase(n_, C.lshape(n_), hist=h, trans=tr, symcols=0, tune=tn, nrhs=1, scalemode=4, lworkmode=lw))
            cs = big + cs      # one path each: explored first, before the path-heavy symbolic histories use up the phase budget
        if not q:
            for h in hs2 + hs3 + (1234, 1324, 1334, 1243):
                for pat in C.all_patterns(2, 2): cs.append(xcase(2, pat, hist=h, trans=1231, symcols=-1 if h < 100 else 2, equil=(pat >> 1) & 1))
                for pat in C.full_diag_plus(3, 2): cs.append(xcase(3, pat, hist=h, trans=2131, symcols=4, tune="t1nn_f1"))
    return list(dict.fromkeys(cs))


GSSVX_BOUNDS = "n <= 3 symbolic (fully or one/two symbolic columns with generic concrete rest), concrete-A/symbolic-B reach cases n <= 6; nrhs <= 2; ldb/ldx <= n+2; Trans N/T/C; Equil on/off; NC/NR; histories of <= 3 (quick) / 4 (thorough) calls"


def check_gssvx(chk, prefixes, tier, purpose):
    for prec in precs(tier):
        cs = gssvx_cases(tier, prec, purpose)
        run_phase(chk, "gssvx/" + prec, H + "h_gssvx.c", cs, prefixes, prec=prec, budget_s=240 if tier == "quick" else 3000, bounds=GSSVX_BOUNDS, div0_functions=DIV0_FN if prec in "ds" else None,
                  qtimeout_ms=(3000 if prec in "zc" else 8000) if tier == "quick" else 60000, env=CPLX_ENV if prec in "zc" else None,
                  key_extra=lambda c: {"storage": str(c[2]), "trans": str(c[16]), "hist": str(c[15])})


def check_C05(chk, tier):
    chk.assumptions += COMMON_ASSUME + ["with Equil=YES inputs additionally satisfy x == 0 or |x| >= min subnormal (so that the safe-range clamps are exercised by representable values only)"]
    check_gssvx(chk, ["C05."], tier, "C05")


def check_C06(chk, tier):
    chk.assumptions += COMMON_ASSUME + ["every refactor step gets fresh symbolic values on the same pattern, so abandoning remembered pivots is a feasible branch"]
    check_gssvx(chk, ["C06."], tier, "C06")


# ------------------------------------------------------------------------------------------------ C18 argument screening (E1 / CBMC)
import e1
E1H = VERIF + "/harness/e1/"
C18_ROUTINES = {1: ("gssv", ["{p}gssv.c"]), 2: ("gssvx", ["{p}gssvx.c"]), 3: ("gsisx", ["{p}gsisx.c"]), 4: ("gstrs", ["{p}gstrs.c"]), 5: ("gsrfs", ["{p}gsrfs.c"]), 6: ("gscon", ["{p}gscon.c"]),
                7: ("gsequ", ["{p}gsequ.c"]), 8: ("sp_trsv", ["{p}sp_blas2.c"]), 9: ("sp_gemv", ["{p}sp_blas2.c"])}


def check_C18(chk, tier):
    chk.assumptions += ["every corruption is a single-argument corruption of an otherwise valid call (as the property quantifies); dimensions <= 2, nrhs <= 2, lda <= 3",
                        "worker routines and allocators have assert(false) bodies generated at goto level: reaching any of them is reported as a failure (this is how 'no work started / no allocation retained' is decided)",
                        "CBMC 6.11 + CaDiCaL; bit-precise doubles for the scale-factor tests; NaN scale factors excluded (NaN is not 'non-positive')"]
    hs = []
    for prec in ["d", "s", "z", "c"]:
        mach = {"d": "dmach.c", "z": "dmach.c", "s": "smach.c", "c": "smach.c"}[prec]
        for r, (nm, srcs) in C18_ROUTINES.items():
            if tier == "quick" and prec != "d" and r in (7, 8, 9) and prec != "c": continue     # quick: drivers, ?gstrs, ?gsrfs, ?gscon in every precision; ?gsequ and the sparse BLAS in double and single complex
            src = [E1H + "h18.c", REPO + "/SRC/util.c", REPO + "/SRC/" + mach] + [REPO + "/SRC/" + s_.format(p=prec) for s_ in srcs]
            hs.append(e1.Harness("c18_%s_%s" % (prec, nm), src, defs=["-DPREC_" + prec.upper(), "-DROUTINE=%d" % r], unwind=3, unwindset={"same_bytes.0": 100}, timeout=900))
    e1.run_harnesses(chk, hs, "C18 argument screening", "n <= 2, nrhs <= 2, lda <= 3, every enum/tag/dimension/lwork/equed/scale-factor corruption; unwind 3 (all loops bounded by n <= 2)")


# ------------------------------------------------------------------------------------------------ C08 workspace
def c08_e1(chk, tier):
    hs = []
    precs_ = ["d"] if tier == "quick" else ["d", "s", "z", "c"]
    for prec in precs_:
        P = "-DPREC_" + prec.upper(); mem = REPO + "/SRC/%smemory.c" % prec
        hs.append(e1.Harness("c08_%s_init" % prec, [E1H + "h08.c", mem, REPO + "/SRC/memory.c"], defs=[P, "-DLMAX=%d" % (640 if tier == "quick" else 1024)], unwind=4, unwindset={"main.0": 12, "main.1": 12, "main.2": 12}, timeout=1500))
        hs.append(e1.Harness("c08_%s_grow1" % prec, [E1H + "h08.c", mem], defs=[P, "-DSTEPS=1", "-DSTUB_COPIES", "-DLMAX=400"], unwind=4,
                             unwindset={"main.0": 12, "main.1": 12, "main.2": 12, "main.3": 5, "main.4": 5, "main.5": 5, "main.6": 6, "main.7": 5, "main.8": 2, "dexpand.0": 12, "dexpand.1": 12}, timeout=1500))
    hs.append(e1.Harness("c08_d_init_idx64", [E1H + "h08.c", REPO + "/SRC/dmemory.c"], defs=["-DPREC_D", "-DSTUB_COPIES", "-DLMAX=400", "-DXSDK_INDEX_SIZE=64"], unwind=4, unwindset={"main.0": 12, "main.1": 12, "main.2": 12}, timeout=1500))
    if tier != "quick":
        hs.append(e1.Harness("c08_d_grow2", [E1H + "h08.c", REPO + "/SRC/dmemory.c"], defs=["-DPREC_D", "-DSTEPS=2", "-DSTUB_COPIES", "-DLMAX=400"], unwind=4,
                             unwindset={"main.0": 12, "main.1": 12, "main.2": 12, "main.3": 5, "main.4": 5, "main.5": 5, "main.6": 6, "main.7": 5, "main.8": 3, "dexpand.0": 12, "dexpand.1": 12}, timeout=3000))
    only = lambda h, f: f["desc"].startswith("C08") or "dereference" in f["desc"] or "memory-leak" in f["desc"]
    e1.run_harnesses(chk, hs, "C08 allocator (all lwork)", "lwork in [1,640] (init) / [1,400] (init + 1 growth request of arbitrary type/next), alignment 0/4, n<=2, annz<=n*n, fill<=3, panel<=2, maxsuper<=2; 32- and 64-bit int_t",
                     violation_filter=only, unwinding_is_violation=True)


def check_C08(chk, tier):
    chk.assumptions += COMMON_ASSUME + ["E1: pointer bookkeeping is decided for every lwork in the stated range; same-object/pointer-overflow reports caused by the (intptr_t) alignment casts are filtered (only C08 assertions, dereference failures and unwinding failures count)",
                                        "E1 growth harness stubs the content-moving routines (user_bcopy, copy_mem_*): content preservation is C07's subject",
                                        "E2: the caller workspace is an exact-size region inside a 2 MB guarded arena; every store of library code is checked against it and the guards carry canaries"]
    c08_e1(chk, tier)
    # E2 pipeline confirmation: ?gstrf with a caller workspace of every length (step 1 around the requirement), symbolic trailing column
    cs = []
    shapes = [(3, 511, "t122", 2), (4, C.band(4, 1, 1), "t212", 2), (5, C.arrow(5, False), "t122", 1)] if tier == "quick" else [(3, 511, "t122", 2), (3, 511, "t1nn_f1", 2), (4, C.band(4, 1, 1), "t212", 2), (5, C.dense(5, 5), "tn1n", 2), (6, C.band(6, 2, 2), "t122", 2),
              (5, C.arrow(5, False), "t122", 1), (6, C.arrow(6, False), "tn1n", 1), (8, C.arrow(8, False), "t4_1_8_2d", 1)]
    for n_, pat, tn, fl in shapes:      # fill estimate 1 with a tip-first arrow: LUSUP, UCOL and LSUB all have to grow inside the caller's workspace
        t = T[tn]; fillT = tuple(t[:5]) + (fl,)
        hi = 1400 if n_ <= 4 else (2400 if fl == 1 and n_ <= 6 else 4000)
        for lw in list(range(1, hi, 1 if tier != "quick" else 3)) + list(range(hi, hi + 64, 7)):
            cs.append(fcase(n_, n_, pat, tune=fillT, symcols=1 << (n_ - 1), lwork=lw, woff=(lw // 5) % 2 * 4))
        for k in range(1, 40 if tier == "quick" else 80): cs.append(fcase(n_, n_, pat, tune=tuple(t[:5]) + (1,), symcols=1 << (n_ - 1), failat=k))
    for prec in (["d"] if tier == "quick" else ["d", "z"]):
        run_phase(chk, "gstrf-user-workspace/" + prec, H + "h_factor.c", cs, ["C08.", "C02.", "C03."], prec=prec, budget_s=200 if tier == "quick" else 1800, monitor_ids=("ws_viol",), crash_is_violation=True,
                  bounds="?gstrf with caller workspace of every length in the stated sweep (n<=4 quick / n<=6 thorough), and library allocation failing at the k-th request (k<40/80)", validate_samples=0)
    growth_ws_phase(chk, tier, ["C08.", "C02.", "C03."])
    # size query through the expert driver
    qs = [xcase(2, 15, lworkmode=-1, equil=e, storage=st) for e in (0, 1) for st in (0, 1)] + [xcase(3, 511, lworkmode=-1, colperm=cp) for cp in (0, 2, 3)]
    run_phase(chk, "gssvx-size-query", H + "h_gssvx.c", qs, ["C08."], prec="d", budget_s=100, bounds="lwork = -1 through ?gssvx, n<=3", validate_samples=0)


def growth_ws_phase(chk, tier, ids, asan=False):
    """?gstrf in a caller workspace that fits only after in-place growth of UCOL/USUB/LSUB/LUSUP, on tip-first arrow matrices of order 8..12 whose late columns carry
    long U segments into the first supernode. The repo's guarded hook (XIAOYELI_SUPERLU_VERIF, ?memory.c) poisons the bytes vacated by every in-place shift, so a
    pointer that still refers to the old place of a moved array shows up as a wrong subscript / non-finite value on these paths (the caller-workspace analogue of
    use-after-free under library allocation)."""
    cs = []
    for n_, tn, lo, hi in ((8, "t122", 1000, 2400), (6, "t122", 700, 1700)) if tier == "quick" else ((8, "t122", 800, 3000), (6, "t122", 500, 2000), (10, "t122", 1200, 4200), (12, "t2_4_4", 1500, 6000), (10, "tn1n", 1200, 4200)):
        t = T[tn]
        for lw in range(lo, hi, 8 if tier == "quick" else 4): cs.append(fcase(n_, n_, C.arrow(n_, False), tune=tuple(t[:5]) + (1,), symcols=1 << (n_ - 1), lwork=lw, woff=(lw // 8) % 2 * 4))
    run_phase(chk, "gstrf-user-workspace/in-place growth with poisoned vacated bytes/d" + ("(asan)" if asan else ""), H + "h_factor.c", cs, ids, prec="d", budget_s=120 if tier == "quick" else 1200, monitor_ids=("ws_viol",),
              crash_is_violation=True, validate_samples=0, asan=asan, bounds="tip-first arrow n = 6, 8 (..12 thorough), fill estimate 1, caller workspace lengths on an 8-byte (4-byte) grid across the fits / does-not-fit boundary, symbolic last column; hook: vacated bytes poisoned")


# ------------------------------------------------------------------------------------------------ C10 orderings / etree
def check_C10(chk, tier):
    chk.assumptions += ["E1 decides sp_preorder/sp_coletree/TreePostorder for every m x n pattern and every input permutation within the size bound (dimensions enumerated, pattern/permutation/SymmetricMode symbolic)",
                        "definitional oracle: parent(j) = min{i>j : L(i,j) != 0} in the boolean Cholesky factor of (A Pc)'(A Pc)",
                        "the built-in heuristics MMD / COLAMD are integer code of 1000-3600 lines that CBMC cannot decide even at n = 2 (DESIGN 10): their output is checked to be a bijection on the enumerated E2 cases only (not a solver verdict over patterns); their interface and everything downstream is solver-checked with an arbitrary permutation"]
    NBq = 3 if tier == "quick" else 4
    hs = []
    src = [E1H + "h10.c", REPO + "/SRC/sp_preorder.c", REPO + "/SRC/sp_coletree.c", REPO + "/SRC/memory.c", REPO + "/SRC/util.c"]
    for m in range(1, NBq + 1):
        for n in range(1, NBq + 1):
            if n == 4 and m >= 3:
                for p0 in range(4): hs.append(e1.Harness("c10_%dx%d_p%d" % (m, n, p0), src, defs=["-DPREC_D", "-DNB=4", "-DFIX_M=%d" % m, "-DFIX_N=%d" % n, "-DFIX_PERM0=%d" % p0], unwind=6, timeout=3000))
            else: hs.append(e1.Harness("c10_%dx%d" % (m, n), src, defs=["-DPREC_D", "-DNB=%d" % NBq, "-DFIX_M=%d" % m, "-DFIX_N=%d" % n], unwind=NBq + 2, timeout=3000))
    e1.run_harnesses(chk, hs, "C10 sp_preorder/etree", "every m x n pattern with m,n <= %d (tall, square and wide), every input permutation, SymmetricMode on/off; unwind n+2 (adaptive)" % NBq)
    # E2 side checks: built-in orderings return bijections on the enumerated patterns (enumeration, not a solver verdict)
    cs = []
    pats = [p for p in C.all_patterns(3, 3)] if tier == "quick" else [p for p in C.all_patterns(3, 3)] + C.full_diag_plus(4, 3)
    for pat in pats:
        nn = 3 if pat < 512 else 4
        for cp in (1, 2, 3): cs.append(fcase(nn, nn, pat, colperm=cp, tune="t122", symcols=0, sym=(pat >> 2) & 1 if cp == 2 else 0))
    c10_large_orderings(chk, tier)
    run_phase(chk, "builtin-orderings/bijection (enumerated)", H + "h_factor.c", cs, ["C10."], prec="d", budget_s=200, bounds="all 512 3x3 patterns x {MMD_ATA, MMD_AT_PLUS_A, COLAMD}, concrete values (integer-only code: enumeration)", validate_samples=0)


def c10_large_orderings(chk, tier):
    cs = []
    for n in ((40, 120, 200) if tier == "quick" else (20, 40, 90, 120, 150, 200, 300)):
        for fam in (0, 1, 2, 3):
            for var in (0, 1, 2, 3):
                for cp in (1, 2, 3): cs.append((n, fam, var, cp))
    run_phase(chk, "builtin-orderings on large structured patterns (enumerated)", H + "h_order.c", cs, ["C10."], prec="d", budget_s=120 if tier == "quick" else 900, validate_samples=0, crash_is_violation=True,
              bounds="n = 40..200 (20..300 thorough): bordered / arrow+empty columns / dense rows and columns / band + dense rows, x {MMD_ATA, MMD_AT_PLUS_A, COLAMD}; integer-only code: enumeration, no solver verdict")


# ------------------------------------------------------------------------------------------------ C14 kernels
def kcase(mode, m, n, pat, tune="t122", symcols=-1, p1=ord("N"), p2=2, p3=2, p4=1, p5=0):
    return (mode, m, n, hex(pat)) + tuple(T[tune]) + (symcols, p1, p2, p3, p4, p5)


def kernel_cases(tier, prec="d"):
    cs = []; cplx = prec in "zc"; q = tier == "quick"
    spell = "NnTtCc"
    shapes = [(2, 3, 0b111111), (3, 2, 0b101101), (2, 2, 0b0111), (1, 3, 0b101), (3, 1, 0b110)] + ([] if q else [(3, 3, 511), (3, 4, 0xB6D), (4, 2, 0xA7)])
    if cplx and q: shapes = [(2, 3, 0b111111), (3, 1, 0b110)]
    for (m, n, pat) in shapes:
        for ch in spell:
            for ak, bk in ((2, 2), (0, 2), (2, 0), (1, 1), (2, 1), (0, 0)) if not (cplx and q) else ((2, 2), (0, 1), (1, 0)):
                cs.append(kcase(1, m, n, pat, p1=ord(ch), p2=ak, p3=bk))
            cs.append(kcase(2, m, n, pat, p1=ord(ch), p2=2 if not cplx else 1, p3=2 if not cplx else 0, p4=2, p5=4 * 1 + 2)); cs.append(kcase(2, m, n, pat, p1=ord(ch), p2=2 if not cplx else 1, p3=1, p4=3 if not cplx else 1, p5=4 * 2 + 0))
    # strided gemv: the implemented combinations (N: any incx with incy = 1; T/C: incx = 1 with any incy), rectangular A, negative increments
    for (m, n, pat) in ([(2, 3, 0b111111), (3, 2, 0b101101), (3, 1, 0b110)] if not (cplx and q) else [(2, 3, 0b111111)]):
        for ch in spell:
            for inc in (2, -1, -2):
                for ak, bk in ((2, 2), (0, 2), (1, 0)): cs.append(kcase(1, m, n, pat, p1=ord(ch), p2=ak, p3=bk, p4=inc if ch in "Nn" else 1, p5=1 if ch in "Nn" else inc))
    fshapes = [(3, 511, "t122", 0), (3, 511, "t212", 0), (3, C.band(3, 1, 1), "t111", 0), (5, C.dense(5, 5), "tn1n", 0), (5, C.dense(5, 5), "t122", 0), (6, C.band(6, 2, 2), "t313", 0), (9, C.dense(9, 9), "t1_8_8", 0), (10, C.dense(10, 10), "tn1n", 0)]
    if cplx and q: fshapes = [(3, 511, "t122", 0), (5, C.dense(5, 5), "tn1n", 0), (5, C.dense(5, 5), "t122", 0)]
    if not cplx: fshapes += [(2, 15, "t122", -1), (3, C.band(3, 1, 1), "t122", -1), (3, 511, "t122", 4)]
    if not q: fshapes += [(12, C.dense(12, 12), "tn1n", 0), (9, C.arrow(9), "t4_1_8_2d", 0), (3, 511, "t122", -1)]
    for (n, pat, tn, sc) in fshapes:
        for up, dg in (("L", "U"), ("U", "N")):
            for tr in "NTC": cs.append(kcase(3, n, n, pat, tune=tn, symcols=sc, p1=ord(up), p2=ord(tr), p3=ord(dg)))
        for tc in (0, 1, 2):
            cs.append(kcase(4, n, n, pat, tune=tn, symcols=sc, p1=tc, p2=3 if sc == 0 else 2, p3=2)); cs.append(kcase(4, n, n, pat, tune=tn, symcols=sc, p1=tc, p2=1, p3=0))
    return list(dict.fromkeys(cs))


def check_C14(chk, tier):
    chk.assumptions += COMMON_ASSUME + ["strides: unit strides everywhere, plus the strided combinations the routine implements (no-transpose: any incx with incy = 1; transposed: incx = 1 with any incy, negative increments included); the remaining combinations abort as not implemented", "factor pairs for the triangular kernels come from real ?gstrf runs (concrete generic matrices: singleton and multi-column supernodes per tuning, plus symbolic small ones)"]
    for prec in precs(tier):
        run_phase(chk, "kernels/" + prec, H + "h_kernels.c", kernel_cases(tier, prec), ["C14."], prec=prec, budget_s=200 if tier == "quick" else 1800,
                  bounds="gemv/gemm: m x n <= 3x3 (3x4 thorough), all six flag spellings, alpha/beta in {0,1,symbolic}, nrhs<=3, ldb != ldc; trsv/gstrs: n<=10 (12) factor pairs from ?gstrf, all uplo/trans/diag, nrhs<=3",
                  qtimeout_ms=(3000 if prec in "zc" else 8000) if tier == "quick" else 60000, env=CPLX_ENV if prec in "zc" else None, key_extra=lambda c: {"mode": str(c[0]), "flag": chr(c[11]) if c[0] in (1, 2) else str(c[11])})
    if tier != "quick":
        run_phase(chk, "kernels/d/vendor-blas", H + "h_kernels.c", kernel_cases(tier, "d"), ["C14."], prec="d", vendor=True, budget_s=1800, bounds="USE_VENDOR_BLAS path with reference BLAS")


# ------------------------------------------------------------------------------------------------ C07 storage independence
def scase(n, pat, colperm=0, permidx=0, tune="t122", symcols=-1, umode=0, fill2=1, lwork2=0, woff2=0, ilu=0):
    t = T[tune]
    return (n, hex(pat), colperm, permidx) + tuple(t[:5]) + (symcols, umode, fill2, lwork2, woff2, ilu)


def storage_cases(tier, prec="d"):
    cs = []; q = tier == "quick"; cplx = prec in "zc"
    small = [(2, 15), (3, 511), (3, C.band(3, 1, 1)), (3, C.arrow(3))] if not cplx else [(2, 15), (3, C.band(3, 1, 1))]
    for n, pat in small:
        for tn in (("t122", "t212", "tn1n") if q else tuple(T)):
            for ilu in (0, 1):
                sc = -1 if not cplx and not (ilu and n == 3 and pat == 511) else 1 << (n - 1)
                cs.append(scase(n, pat, tune=tn, symcols=sc, fill2=1, ilu=ilu, umode=0 if cplx or ilu else 1))
                for lw, wo in ((700, 0), (1001, 4), (1400, 4), (4000, 0)): cs.append(scase(n, pat, tune=tn, symcols=1 << (n - 1), fill2=2, lwork2=lw, woff2=wo, ilu=ilu))
    big = [(5, C.dense(5, 5)), (6, C.band(6, 2, 2)), (7, C.dense(7, 7)), (10, C.band(10, 4, 1))] if q else [(5, C.dense(5, 5)), (6, C.band(6, 2, 2)), (7, C.dense(7, 7)), (9, C.arrow(9)), (10, C.dense(10, 10)), (10, C.band(10, 4, 1))]
    if cplx and q: big = big[:2]
    for n, pat in big:
        for tn in ("tn1n", "t122", "t4_1_8_2d"):
            for ilu in (0, 1):
                for f2 in (1, 2): cs.append(scase(n, pat, tune=tn, symcols=1 << (n - 1), fill2=f2, ilu=ilu))
                for lw, wo in ((3000, 0), (5003, 4), (9000, 4), (20000, 0)): cs.append(scase(n, pat, tune=tn, symcols=3 << (n - 2), fill2=1, lwork2=lw, woff2=wo, ilu=ilu))
    return list(dict.fromkeys(cs))


def storage_sweep_cases(tier):
    """caller workspace lengths on a fine grid around the point where the problem just fits (fill estimate 1, so the arrays grow inside the workspace): a length is
    either reported insufficient (skipped here, C08's subject) or must give the same factors as the generous regime"""
    cs = []; q = tier == "quick"
    # arrow patterns with the tip first fill completely, so with fill estimate 1 LUSUP / UCOL / LSUB all grow inside the workspace
    for n, pat, tn, lo, hi in ((5, C.arrow(5, False), "t122", 400, 2300), (6, C.arrow(6, False), "t122", 400, 2700), (6, C.arrow(6, False), "tn1n", 400, 2900), (8, C.arrow(8, False), "t4_1_8_2d", 400, 3900)) if q else \
                              ((5, C.arrow(5, False), "t122", 400, 2600), (6, C.arrow(6, False), "t122", 400, 3000), (6, C.arrow(6, False), "tn1n", 400, 3200), (8, C.arrow(8, False), "t4_1_8_2d", 400, 4500), (10, C.arrow(10, False), "t2_4_4", 400, 6000), (9, C.band(9, 3, 3), "t122", 400, 6000)):
        for lw in range(lo, hi, 12 if q else 4): cs.append(scase(n, pat, tune=tn, symcols=1 << (n - 1), fill2=1, lwork2=lw, woff2=(lw // 12) % 2 * 4, ilu=0))
    return cs


def check_C07(chk, tier):
    chk.assumptions += COMMON_ASSUME + ["layer T: the two runs' stored values are compared as operation DAGs (identical term => identical bits under any IEEE rounding); integer arrays compared exactly",
                                        "second regime: fill estimate 1 or 2 (in-flight expansions) or a caller workspace of several lengths and both alignments; workspaces too small for the problem are C08's subject and skipped here"]
    for prec in precs(tier):
        run_phase(chk, "storage-regimes/" + prec, H + "h_storage.c", storage_cases(tier, prec), ["C07."], prec=prec, budget_s=200 if tier == "quick" else 1800, monitor_ids=("ws_viol",),
                  bounds="n<=3 symbolic, n<=10 with symbolic trailing columns; complete and incomplete LU; fill estimate 1/2 vs generous; caller workspace lengths {700..20000} x alignment {0,4}",
                  qtimeout_ms=(3000 if prec in "zc" else 8000) if tier == "quick" else 60000, env=CPLX_ENV if prec in "zc" else None, validate_samples=0)
    if tier != "quick":   # E1 (thorough only: 160 s, 7 GB): a growth request under library allocation preserves the contents of all four factor arrays, for every request type / fill state
        hs = [e1.Harness("c07_xpand_system_%s" % pr, [E1H + "h07xpand.c", REPO + "/SRC/%smemory.c" % pr, REPO + "/SRC/memory.c", REPO + "/SRC/util.c"], defs=["-DPREC_" + pr.upper(), "-DMODEL_SYSTEM"], unwind=30, timeout=3000) for pr in ("d", "z")]
        e1.run_harnesses(chk, hs, "C07 growth request preserves contents (library allocation)", "n <= 2, fill estimate <= 3, every request type and fill level; the caller-workspace variant (real user_bcopy over every lwork <= 320) gave no verdict in 25 min and is not run")
    run_phase(chk, "storage-regimes/workspace-length sweep/d", H + "h_storage.c", storage_sweep_cases(tier), ["C07."], prec="d", budget_s=120 if tier == "quick" else 1800, monitor_ids=("ws_viol",), validate_samples=0,
              bounds="n = 5..7 (10 thorough), fill estimate 1, caller workspace of every length on a 12-byte (4-byte thorough) grid across the fits / does-not-fit boundary, both alignments")


# ------------------------------------------------------------------------------------------------ C20 Fortran bridge
def bcase(n, pat1, pat2=None, tune="t122", symcols=-1, nsolve=2, nrhs=1, ldbx=0, two=0):
    return (n, hex(pat1), hex(pat2 if pat2 is not None else pat1)) + tuple(T[tune]) + (symcols, nsolve, nrhs, ldbx, two)


def check_C20(chk, tier):
    chk.assumptions += COMMON_ASSUME + ["the bridge is C code (FORTRAN/c_fortran_?gssv.c) and is driven directly, as a Fortran caller would (all arguments by reference, 1-based index arrays)",
                                        "reference for 'the same solution the C simple driver would return': ?gssv with default options on copies of the same A and B; compared exactly (zero difference in exact arithmetic; term identity noted)"]
    q = tier == "quick"
    for prec in (["d", "z"] if q else ["d", "z", "s", "c"]):
        cplx = prec in "zc"; cs = []
        for n, pat in [(1, 1), (2, 15), (2, 0b1101), (3, 511), (3, C.band(3, 1, 1)), (3, C.arrow(3))]:
            sc = -1 if (not cplx and n <= 2) else (1 << (n - 1))
            cs.append(bcase(n, pat, symcols=sc, nsolve=2, nrhs=1)); cs.append(bcase(n, pat, C.band(n, 1, 0) if n > 1 else 1, symcols=1 << (n - 1), nsolve=2, nrhs=2, ldbx=2, two=1))
        for n, pat in [(5, C.dense(5, 5)), (6, C.band(6, 2, 2)), (10, C.band(10, 4, 1))] + ([] if q else [(9, C.arrow(9)), (10, C.dense(10, 10))]):
            for tn in ("tn1n", "t122"): cs.append(bcase(n, pat, C.arrow(n), tune=tn, symcols=0, nsolve=3, nrhs=3, ldbx=3, two=1)); cs.append(bcase(n, pat, tune=tn, symcols=1 << (n - 1), nsolve=1, nrhs=2, ldbx=1))
        run_phase(chk, "bridge/" + prec, H + "h_bridge.c", cs, ["C20."], prec=prec, budget_s=200 if q else 1500, extra_src=(REPO + "/FORTRAN/c_fortran_%sgssv.c" % prec,),
                  bounds="n<=3 symbolic A, n<=10 concrete/trailing-symbolic A with symbolic B; factor, <=3 solves (nrhs<=3, ldb<=n+3), free; optional second live handle",
                  qtimeout_ms=(3000 if cplx else 8000) if q else 60000, env=CPLX_ENV if cplx else None, validate_samples=0)


# ------------------------------------------------------------------------------------------------ C19 memory safety over lifecycles
def check_C19(chk, tier):
    chk.assumptions += COMMON_ASSUME + ["every harness is rebuilt with -fsanitize=address,undefined on the C->IR step (ASan/UBSan instrumentation is in the IR the FP rewrite runs on); integer state on a symbolically explored path is concrete, so the sanitizer verdict is exact for that path and the solver supplies the feasible paths",
                                        "leaks: ledger of every malloc/calloc/realloc/free made by library code; after the caller destroyed the objects it was handed nothing allocated during the call sequence may be live",
                                        "uninitialised FP data: malloc'ed memory is poison-filled with a reserved NaN pattern; an FP operation reading it is a violation; uninitialised integers are not tracked (no MSan twin in this build)",
                                        "readers are covered by C16's CBMC harnesses (bounds/pointer checks), not here"]
    q = tier == "quick"; kw = dict(asan=True, crash_is_violation=True, event_violations=("uninit-fp",), validate_samples=0, monitor_ids=("heap_errors",))
    fc = [c for c in factor_cases("quick", "C03", "d") if c[1] <= 2] + [fcase(3, 3, p, tune=tn, umode=um) for p in (511, C.band(3, 1, 1), C.arrow(3)) for tn, um in (("t1nn_f1", 0), ("t221_f1", 1), ("t122", 0))]
    for n_, pat in ((5, C.dense(5, 5)), (6, C.band(6, 2, 2)), (7, C.dense(7, 7)), (10, C.band(10, 4, 1))):
        for tn in ("t1nn_f1", "t221_f1", "tn1n", "t2_4_4"):
            for fill in (1, 2, 3): cs_t = tuple(T[tn][:5]) + (fill,); fc.append(fcase(n_, n_, pat, tune=cs_t, symcols=1 << (n_ - 1)))
    if not q: fc += factor_cases("quick", "C02", "d")
    run_phase(chk, "factor(asan)/d", H + "h_factor.c", fc, ["C19."], prec="d", budget_s=240 if q else 1800, bounds="factor lifecycle incl. fill estimates 1..3 (arrays ending at / just before capacity), singular outcomes", **kw)
    gc = [c for c in gssv_cases("quick", "d") if c[0] <= 2][:60] + [gcase(3, 511, storage=st, tune="t1nn_f1") for st in (0, 1)] + [gcase(n_, C.dense(n_, n_), storage=1, tune=tuple(T["t1_8_8"][:5]) + (f,), symcols=0, nrhs=2, ldbx=1) for n_ in (5, 9) for f in (1, 2)]
    run_phase(chk, "gssv(asan)/d", H + "h_gssv.c", gc, ["C19."], prec="d", budget_s=200 if q else 900, bounds="simple driver lifecycle, NC/NR, singular and successful outcomes", **kw)
    xc = [xcase(2, 15, hist=h, trans=t, storage=st, symcols=sc, tune="t1nn_f1") for h, t, st, sc in ((1, 1, 0, -1), (1, 2, 1, -1), (14, 12, 0, 2), (13, 21, 1, 2), (124, 123, 0, 2), (134, 213, 1, 2))] + \
         [xcase(2, 15, lworkmode=-1, storage=st, equil=e) for st in (0, 1) for e in (0, 1)] + [xcase(3, 511, symcols=0, equil=1, refine=1, cond=1, growth=1, nrhs=1, trans=t, storage=st) for t in (1, 2) for st in (0, 1)] + \
         [xcase(5, C.dense(5, 5), symcols=16, hist=134, trans=121, tune="t1nn_f1")] + [xcase(4, C.arrow(4, False), hist=134, trans=121, symcols=1, tune="t1nn_f1")] + \
         [xcase(8, C.lshape(8), hist=134, trans=121, symcols=0, tune=tn, scalemode=4, lworkmode=lw) for tn in ("t112_f1", "t214_f1") for lw in (0, 6000)]     # storage adopted by SamePattern_SameRowPerm grows during the refactor step
    run_phase(chk, "gssvx(asan)/d", H + "h_gssvx.c", xc, ["C19."], prec="d", budget_s=200 if q else 900, bounds="expert driver histories incl. singular results and size queries", key_extra=lambda c: {"storage": str(c[2]), "trans": str(c[16]), "hist": str(c[15])}, **kw)
    kc = [c for c in kernel_cases("quick", "d") if c[0] in (3, 4)][:40] + [c for c in kernel_cases("quick", "d") if c[0] in (1, 2)][:40]
    run_phase(chk, "kernels(asan)/d", H + "h_kernels.c", kc, ["C19.", "C14.factors"], prec="d", budget_s=150, bounds="kernels on real factor pairs", **kw)
    sc_ = [c for c in storage_cases("quick", "d")][::3]
    run_phase(chk, "storage(asan)/d", H + "h_storage.c", sc_, ["C19.", "C07.workspace"], prec="d", budget_s=150, bounds="complete and incomplete LU under expansions / caller workspace", **kw)
    bc = [bcase(3, 511, C.band(3, 1, 0), symcols=4, nsolve=2, nrhs=2, ldbx=2, two=1), bcase(2, 15, symcols=-1), bcase(5, C.dense(5, 5), C.arrow(5), symcols=0, nsolve=3, nrhs=3, ldbx=3, two=1)]
    run_phase(chk, "bridge(asan)/d", H + "h_bridge.c", bc, ["C19.", "C20.free"], prec="d", budget_s=100, extra_src=(REPO + "/FORTRAN/c_fortran_dgssv.c",), bounds="Fortran bridge factor/solve/free", **kw)
    # stale pointers after in-place growth inside a caller workspace: the poisoned vacated bytes are consumed => wrong subscripts (structure / identity oracles) or a sanitizer report
    growth_ws_phase(chk, tier, ["C19.", "C02.", "C03.", "C08."], asan=True)
    fa = [fcase(n_, n_, pat, tune=tuple(T[tn][:5]) + (1,), symcols=1 << (n_ - 1), failat=k) for n_, pat, tn in ((3, 511, "t122"), (5, C.arrow(5, False), "t122"), (8, C.arrow(8, False), "t122")) for k in range(1, 45 if q else 90)]
    run_phase(chk, "gstrf with the k-th library allocation failing (asan)/d", H + "h_factor.c", fa, ["C19.", "C08."], prec="d", budget_s=100 if q else 600, bounds="library allocation, fill estimate 1, request k = 1..44 (89) fails: out-of-space return or success, ledger empty afterwards", **kw)
    if not q:
        run_phase(chk, "factor(asan)/z", H + "h_factor.c", [c for c in fc if c[1] <= 2 or c[14] != -1][:150], ["C19."], prec="z", budget_s=900, bounds="complex factor lifecycle", env=CPLX_ENV, **kw)


# ------------------------------------------------------------------------------------------------ C09 reentrancy / determinism
def check_C09(chk, tier):
    chk.level = "other"
    chk.assumptions += ["claim shape: non-interference => schedule independence. If no library routine writes mutable storage other than objects reachable from its arguments, its own stack and blocks it allocated during the call, any interleaving of calls on disjoint data equals a serial order (malloc/free thread-safe by contract). True thread interleavings of whole calls are NOT explored (outside what the solver can reach here; DESIGN 10).",
                        "premise checked three ways: (1) IR-wide scan of the linked library module of each precision for stores whose underlying object is a global/static; (2) store monitor on every symbolically explored path of the determinism harness and of the driver harnesses; (3) solver-level determinism: f(args); unrelated call; f(args) again must return identical terms (layer T)"]
    import e2
    # (1) static scan, four precisions
    scan = {"phase": "static scan of library IR for stores to globals", "engine": "slusym-instr (LLVM-14)", "states": 1, "transitions": 1, "obligations": 0, "discharged": 0, "exhaustive": True, "per_precision": {}}
    for prec in "dszc":
        b = e2.Build(os.path.join(chk.scratch, "scan_" + prec), prec).build_lib(); exe = b.build_harness(H + "h_determ.c", "scan")
        t = b.table; scan["obligations"] += 1
        scan["per_precision"][prec] = {"functions": len(t["functions"]), "mutable_library_globals": t["lib_globals"][:30], "stores_to_globals": t["global_stores"][:30]}
        if t["global_stores"]:
            for g in t["global_stores"][:10]:
                chk.violation({"engine": "scan", "harness": "static", "assert_id": "store-to-global", "site": "%s:%s" % (g["function"], g["global"]), "prec": prec}, "library function %s stores to library global/static '%s' (line %s, precision %s)" % (g["function"], g["global"], g["line"], prec), g)
        else: scan["discharged"] += 1
    chk.phases.append(scan); chk.samples.append({"phase": "static scan", **{k: v for k, v in scan["per_precision"]["d"].items()}})
    # (2)+(3) determinism harness with the store monitor
    q = tier == "quick"
    for prec in (["d", "z"] if q else list("dzsc")):
        cs = []
        for mode in (0, 1, 2):
            for n, pat, sc, bs in [(2, 15, 0, 1), (3, C.band(3, 1, 1), 0, 1), (3, 511, 0, 0), (5, C.dense(5, 5), 0, 0), (6, C.band(6, 2, 2), 0, 0)] + ([] if q else [(9, C.arrow(9), 0, 0), (10, C.dense(10, 10), 0, 0), (2, 15, 2, 1), (3, 511, 4, 1)]):
                if prec in "zc" and (bs == 1 or n > 5 or mode == 0): continue   # complex: the estimator's |z| = sqrt(..) atoms make even concrete runs solver-bound
                cs.append((n, hex(pat)) + tuple(T["t122" if n < 5 else "tn1n"]) + (sc, mode, bs))
        run_phase(chk, "determinism+store-monitor/" + prec, H + "h_determ.c", cs, ["C09."], prec=prec, budget_s=200 if q else 900, monitor_ids=("global_stores",), validate_samples=0,
                  bounds="?gssvx (equil+cond+refine+growth), ?gsisx (SMILU_2), ?gssv; n<=6 (10 thorough); repeat after an unrelated call with other options", qtimeout_ms=5000 if q else 30000, env=CPLX_ENV if prec in "zc" else None)
    # history in a caller workspace: ?gstrf (square and tall) in a buffer that still holds another factorization's bookkeeping must give the factors of THIS matrix
    hc = []
    for m_, n_, pat in ((3, 3, 511), (4, 3, C.dense(4, 3)), (5, 3, C.dense(5, 3)), (5, 3, 0b110110111101101), (6, 4, C.dense(6, 4)), (6, 4, 0x3cf3cf), (4, 2, 0xf5), (7, 5, C.dense(7, 5))):
        for tn in ("t122", "t212", "tn1n"): hc.append(fcase(m_, n_, pat, tune=tn, symcols=1 << (n_ - 1), flags=4, lwork=30000, woff=4 * (m_ % 2)))
    run_phase(chk, "history in a caller workspace/gstrf", H + "h_factor.c", hc, ["C02.", "C03.", "C04.", "C08.workspace"], prec="d", budget_s=100, monitor_ids=("global_stores", "ws_viol"), validate_samples=0,
              bounds="m x n <= 7x5 (square and tall), caller workspace reused right after an unrelated dense factorization; result judged by the factor identity / structure oracles")
    # monitor on driver harness paths as well
    xc = [xcase(2, 0b1101, hist=h, trans=t, symcols=2) for h, t in ((14, 12), (134, 121))] + [xcase(2, 15, symcols=0, equil=1, refine=1, cond=1, growth=1)]
    run_phase(chk, "store-monitor/gssvx", H + "h_gssvx.c", xc, ["C09."], prec="d", budget_s=120, monitor_ids=("global_stores",), validate_samples=0, bounds="expert-driver histories under the store monitor")


# ------------------------------------------------------------------------------------------------ C11 equilibration
def check_C11(chk, tier):
    chk.assumptions += COMMON_ASSUME + ["entries range over the whole finite range of the precision with x == 0 or |x| >= min subnormal; smlnum/bignum/small/large are the exact rationals the library's ?mach returns",
                                        "layer X: 'equal to one up to rounding' is checked as R_i * clamp(rowmax_i) == 1 exactly; overflow of products in the true format is not modelled (DESIGN 5)"]
    q = tier == "quick"
    for prec in (["d", "z"] if q else list("dszc")):
        cplx = prec in "zc"; cs = []
        for m, n in ((1, 1), (1, 2), (2, 1), (2, 2)) + (() if q and cplx else ((2, 3), (3, 2)) if q else ((2, 3), (3, 2), (3, 3))):
            pats = C.all_patterns(m, n) if m * n <= 4 else [p for p in C.all_patterns(m, n) if bin(p).count("1") in (m * n, m * n - 1, 3, 2)][:: (3 if q else 1)]
            for pat in pats:
                full = bin(pat).count("1") <= (2 if not cplx else 1)
                if full: cs.append((m, n, hex(pat), -1))
                for sc in range(n): cs.append((m, n, hex(pat), 1 << sc))
        run_phase(chk, "gsequ+laqgs/" + prec, H + "h_equil.c", list(dict.fromkeys(cs)), ["C11."], prec=prec, budget_s=200 if q else 1500, validate_samples=2,
                  bounds="m x n <= 3x3: all patterns up to 2x2, selected 3x3; fully symbolic up to 2 stored entries, otherwise one symbolic column (rest generic concrete); empty rows/columns at every position",
                  qtimeout_ms=5000 if q else 60000, env=CPLX_ENV if cplx else None)
    if q:   # single precision (real and complex) on a reduced case set: the safe-range constants and thresholds differ per precision
        for prec in ("s", "c"):
            cs = [(m, n, hex(pat), 1 << sc) for m, n in ((1, 1), (1, 2), (2, 1), (2, 2)) for pat in C.all_patterns(m, n) if pat for sc in range(n)] + [(1, 1, "0x1", -1), (2, 1, "0x3", -1), (1, 2, "0x3", -1)]
            run_phase(chk, "gsequ+laqgs/" + prec, H + "h_equil.c", list(dict.fromkeys(cs)), ["C11."], prec=prec, budget_s=60, validate_samples=0, bounds="m x n <= 2x2, all patterns, one symbolic column (rest generic concrete) or fully symbolic with <= 2 entries",
                      qtimeout_ms=5000, env=CPLX_ENV if prec == "c" else None)


# ------------------------------------------------------------------------------------------------ C12 condition estimate / growth
def check_C12(chk, tier):
    chk.assumptions += COMMON_ASSUME + ["true condition number: adjugate/determinant of the factored (equilibrated) matrix formed in the harness, n <= 3, real precisions; complex norms use sqrt(re^2+im^2) and are not given the true-value oracle (only rcond <= 1, the warning rule and the growth factor)",
                                        "most cases use a generic concrete matrix with symbolic right-hand sides (single estimator path); fully/partly symbolic matrices at n = 2"]
    q = tier == "quick"
    for prec in (["d", "z"] if q else list("dszc")):
        cplx = prec in "zc"; cs = []
        for st in (0, 1):
            for tr in (1, 2):
                for eq in (0, 1):
                    for n, pat in ((1, 1), (2, 15), (3, 511), (3, 0b110111011), (3, 0b111011101)):
                        if cplx and n == 3 and q and pat != 511: continue
                        cs.append(xcase(n, pat, storage=st, trans=tr, equil=eq, symcols=0, cond=0 if cplx else 1, growth=1, tune="t122" if st else "t212"))   # complex: the estimator's sqrt atoms make even concrete runs solver-bound
                    if not cplx and not q: cs.append(xcase(2, 0b1101, storage=st, trans=tr, equil=eq, symcols=2, cond=1, growth=1)); cs.append(xcase(2, 0b1011, storage=st, trans=tr, symcols=1, cond=1))
        for pat in (C.all_patterns(2, 2) if not cplx else [15, 7]): cs.append(xcase(2, pat, growth=1, umode=0 if cplx else 1, symcols=-1 if not cplx else 0))      # singular and nonsingular growth, symbolic
        if not cplx:
            for pat in (511, C.band(3, 1, 1), 0b011011011, 0b111000111): cs.append(xcase(3, pat, growth=1, symcols=4, tune="t212"))
            # breakdown in a column that is not the last of its supernode (relaxed supernode of 3): only the leading info columns may enter the growth factor
            for pat in (511, 0b111111011): cs.append(xcase(3, pat, growth=1, symcols=2, tune="t133")); cs.append(xcase(3, pat, growth=1, symcols=6, tune="t1nn_f1", storage=1, trans=2))
            cs.append(xcase(4, C.dense(4, 4), growth=1, symcols=2, tune="t1nn_f1")); cs.append(xcase(4, C.dense(4, 4), growth=1, symcols=4 + 8, tune="t1_8_8"))
        if not q and not cplx:
            for pat in C.all_patterns(2, 2): cs.append(xcase(2, pat, cond=1, growth=1)); cs.append(xcase(2, pat, cond=1, storage=1, trans=2, symcols=1))
        run_phase(chk, "gscon+growth via gssvx/" + prec, H + "h_gssvx.c", list(dict.fromkeys(cs)), ["C12."], prec=prec, budget_s=200 if q else 1500, validate_samples=0,
                  bounds="n<=3; NC/NR x NOTRANS/TRANS x Equil; concrete generic A (3 shapes) and symbolic 2x2; growth factor incl. singular factorizations of all 2x2 patterns", qtimeout_ms=5000 if q else 60000, env=CPLX_ENV if cplx else None,
                  key_extra=lambda c: {"storage": str(c[2]), "trans": str(c[16]), "hist": str(c[15]), "struct_singular": str(int(C.structural_rank(c[0], c[0], int(c[1], 16)) < c[0]))})


# ------------------------------------------------------------------------------------------------ C13 backward error
def check_C13(chk, tier):
    chk.assumptions += COMMON_ASSUME + ["?gsrfs is driven directly with factors of a generic concrete matrix and an arbitrary symbolic X and B, so the residual, the safeguarded ratio, the correction solve and the stopping rule all execute on symbols; complex |.| is |re|+|im| as in the library",
                                        "backward error formula as documented in the routine: |r_i|/d_i if d_i > safe2, (|r_i|+safe1)/d_i if 0 < d_i <= safe2, d_i = (|op(A)||x|+|b|)_i", "NOREFINE path (ferr = berr = 1 exactly, X unrefined) is checked through the expert driver cases"]
    q = tier == "quick"
    for prec in (["d", "z"] if q else list("dszc")):
        cplx = prec in "zc"; cs = []
        if q:
            for tc in ((0, 1, 2) if not cplx else (2,)): cs.append((1, hex(1)) + tuple(T["t122"]) + (tc, 1, 0, 0, 0))
            if not cplx:
                cs.append((2, hex(0b1101)) + tuple(T["t212"]) + (0, 2, 0, 2, 1)); cs.append((2, hex(0b1011)) + tuple(T["t212"]) + (1, 2, 1, 0, 1))
        else:
            for n, pat in ((1, 1), (2, 15), (2, 0b1101), (3, 511)):
                for tc in (0, 1, 2):
                    cs.append((n, hex(pat)) + tuple(T["t122"]) + (tc, 1, 0, 0, 0))
                    if n >= 2: cs.append((n, hex(pat)) + tuple(T["t212"]) + (tc, 3, 0, 2, 1)); cs.append((n, hex(pat)) + tuple(T["t212"]) + (tc, 2, 1, 0, 1))
        # factors of a nearby matrix (slow, geometric convergence in exact arithmetic): the stopping rule runs into its cap; concrete B and X = 0 (single path)
        for n, pat, tn in ((2, 15, "t122"), (3, 511, "t212"), (3, C.band(3, 1, 1), "t111"), (5, C.dense(5, 5), "tn1n")) if not cplx else ((2, 15, "t122"), (3, 511, "t212")):
            for tc in (0, 1, 2):
                for nr, lb, lx in ((1, 0, 0), (2, 1, 0), (3, 0, 2)): cs.append((n, hex(pat)) + tuple(T[tn]) + (tc, nr, lb, lx, 2, 1))
        run_phase(chk, "gsrfs-direct/" + prec, H + "h_gsrfs.c", list(dict.fromkeys(cs)), ["C13."], prec=prec, budget_s=100 if q else 1500, validate_samples=0, path_timeout=30 if q else 600,
                  bounds="n<=3 generic concrete A, all Trans, nrhs<=3 with ldx != ldb, symbolic arbitrary X (all columns or one column) and B", qtimeout_ms=5000 if q else 60000, env=CPLX_ENV if cplx else None)
    xc = [xcase(n, pat, storage=st, trans=tr, equil=eq, refine=0, symcols=sc) for n, pat, sc in ((1, 1, -1), (2, 15, 2)) for st in (0, 1) for tr in (1, 2) for eq in (0, 1)]
    run_phase(chk, "norefine via gssvx/d", H + "h_gssvx.c", xc, ["C13."], prec="d", budget_s=100, validate_samples=0, bounds="IterRefine = NOREFINE through the expert driver")


# ------------------------------------------------------------------------------------------------ C16 readers (coordinate formats by CBMC; HB/RB text layouts: see DESIGN)
def check_C16(chk, tier):
    chk.assumptions += ["stdio replaced at token level: fgets/sscanf/fscanf/scanf deliver SYMBOLIC header fields and (i, j, value) triples to the real reader; text-to-number conversion (libc) assumed",
                        "well-formed file: 1-based indices in range, each position listed once, symmetric files store the lower triangle (diagonal entries present or absent, any order)",
                        "Harwell-Boeing / Rutherford-Boeing readers: character-level file model (fgets/fgetc/fscanf %Nc semantics on a byte array); the card layout, edit descriptors, records per line and field widths are ENUMERATED concrete layouts (incl. full 80-column records, D exponents, kP scale factors, lower-case descriptors, an RHS block to skip, pattern-only files); every pointer/index/value field stands for a symbolic number; a conversion must be applied exactly at a field start with the field terminated at its declared width"]
    q = tier == "quick"; hs = []
    NBq, NEq = (3, 2) if q else (3, 3)
    for prec in (["d", "z"] if q else list("dszc")):
        P = "-DPREC_" + prec.upper(); mem = [REPO + "/SRC/%smemory.c" % prec, REPO + "/SRC/memory.c"]
        for n in range(1, NBq + 1):
            for nnz in range(1, NEq + 1):      # an empty file makes the reader call malloc(0), which CBMC may answer with NULL -> ABORT: not modelled
                if nnz > n * n: continue
                for sym in (0, 1):
                    if sym and nnz > n * (n + 1) // 2: continue
                    hs.append(e1.Harness("c16_%sreadMM_n%d_e%d_%s" % (prec, n, nnz, "sym" if sym else "gen"), [E1H + "h16mm.c", REPO + "/SRC/%sreadMM.c" % prec] + mem,
                                         defs=[P, "-DREADER=1", "-DNB=%d" % NBq, "-DNE=%d" % max(NEq, 1), "-DFIX_N=%d" % n, "-DFIX_NNZ=%d" % nnz, "-DFIX_SYM=%d" % sym], unwind=18, timeout=1500, flags=e1.BASE_FLAGS))
                if prec in "dz" or not q:
                    hs.append(e1.Harness("c16_%sreadtriple_n%d_e%d" % (prec, n, nnz), [E1H + "h16mm.c", REPO + "/SRC/%sreadtriple.c" % prec] + mem,
                                         defs=[P, "-DREADER=2", "-DNB=%d" % NBq, "-DNE=%d" % max(NEq, 1), "-DFIX_N=%d" % n, "-DFIX_NNZ=%d" % nnz, "-DFIX_SYM=0"], unwind=18, timeout=1500, flags=e1.BASE_FLAGS))
    # fixed-width text readers (Harwell-Boeing, Rutherford-Boeing): character-level file model, layouts enumerated, field contents symbolic
    import hbgen
    I = {"i5x16": (16, 5, "(16I5)"), "i5x2": (2, 5, "(2I5)"), "i4x3": (3, 4, "(3i4)"), "i10x8": (8, 10, "(8I10)"), "i2x40": (40, 2, "(40I2)"), "i8x10": (10, 8, "(10I8)"), "i3x1": (1, 3, "(1I3)")}
    V = {"e15x5": (5, 15, "(5E15.8)", "E"), "e20x4": (4, 20, "(4E20.12)", "E"), "d20x4": (4, 20, "(4D20.12)", "D"), "e16x5": (5, 16, "(1P5E16.8)", "E"), "f10x8": (8, 10, "(8F10.3)", ""), "d25x3": (3, 25, "(1P3D25.16)", "D"),
         "e20x2": (2, 20, "(2e20.12)", "E"), "f13x6": (6, 13, "(1P6F13.6)", ""), "e26x1": (1, 26, "(1E26.18)", "E")}
    # general files: column pointers, row indices and values all symbolic. Symmetric files: CBMC does not get through FormFullA with a symbolic pattern
    # (measured: > 10 GB at n = 2), so the lower-stored PATTERN is enumerated (every lower-triangular pattern with n <= 3, diagonal entries present or
    # absent) and only the values are symbolic.
    def lower_patterns(n):
        pos = [(i, j) for j in range(n) for i in range(j, n)]; out = []
        for bits in range(1, 1 << len(pos)):
            ent = [pos[k] for k in range(len(pos)) if (bits >> k) & 1]; cp = [1]; ri = []
            for j in range(n): col = [i + 1 for (i, jj) in ent if jj == j]; ri += col; cp.append(cp[-1] + len(col))
            out.append((tuple(cp), tuple(ri)))
        return out
    hbc = []   # (reader, n, nnz, sym, ptr, ind, val, rhscrd, pattern_only, cp, ri)
    for rd in ("hb", "rb"):
        hbc += [(rd, 3, 4, 0, "i5x2", "i4x3", "e20x2", 0, 0, None, None), (rd, 2, 3, 0, "i5x16", "i5x16", "e15x5", 0, 0, None, None), (rd, 3, 5, 0, "i3x1", "i5x2", "d20x4", 0, 0, None, None),
                (rd, 3, 6, 0, "i5x16", "i5x16", "e20x4", 0, 0, None, None), (rd, 3, 9, 0, "i2x40", "i10x8", "f10x8", 0, 0, None, None), (rd, 2, 2, 0, "i2x40", "i2x40", "d25x3", 0, 0, None, None)]
        lay = [("i5x2", "i4x3", "e20x2"), ("i10x8", "i8x10", "f10x8"), ("i2x40", "i2x40", "d25x3"), ("i5x16", "i5x16", "e16x5")]
        for n_ in (1, 2, 3):
            for k_, (cp, ri) in enumerate(lower_patterns(n_)):
                if q and n_ == 3 and k_ % 3 and len(ri) not in (1, 6): continue
                pi, ii, vv = lay[k_ % len(lay)]; hbc.append((rd, n_, len(ri), 1, pi, ii, vv, 0, 0, cp, ri))
        if not q: hbc += [(rd, 3, 4, 0, pi, pi, vv, 0, 0, None, None) for pi in I for vv in V] + [(rd, 9, 10, 0, "i10x8", "i10x8", "e20x4", 0, 0, None, None), (rd, 9, 12, 0, "i8x10", "i2x40", "e16x5", 0, 0, None, None), (rd, 4, 6, 0, "i5x2", "i5x2", "e26x1", 0, 0, None, None)]
    hbc += [("hb", 3, 4, 0, "i5x2", "i4x3", "e20x2", 1, 0, None, None), ("hb", 3, 4, 0, "i5x2", "i4x3", "e20x2", 0, 1, None, None), ("hb", 9, 9, 0, "i10x8", "i10x8", "e20x4", 0, 0, None, None),
            ("hb", 3, 5, 1, "i5x16", "i5x16", "e16x5", 1, 0, (1, 4, 5, 6), (1, 2, 3, 3, 3))]
    # rectangular files (type ?RA): NROW != NCOL, both orientations
    rect = [("hb", 4, 5, 2, "i5x2", "i4x3", "e20x2"), ("hb", 2, 4, 4, "i5x16", "i5x16", "e15x5"), ("rb", 4, 5, 2, "i5x2", "i4x3", "e20x2"), ("rb", 2, 3, 5, "i3x1", "i5x2", "d20x4"), ("hb", 5, 6, 3, "i2x40", "i10x8", "f10x8")]
    HBFLAGS = e1.BASE_FLAGS + ["--max-field-sensitivity-array-size", "128", "--object-bits", "12"]
    for prec in (["d", "z"] if q else list("dszc")):
        P = "-DPREC_" + prec.upper(); mem = [REPO + "/SRC/%smemory.c" % prec, REPO + "/SRC/memory.c"] + ([REPO + "/SRC/%s" % {"z": "dcomplex.c", "c": "scomplex.c"}[prec]] if prec in "zc" else [])
        for ci, (rd, n, nnz, sym, pi, ii, vv, rhs, pat_only, cp, ri) in enumerate(list(dict.fromkeys(hbc)) + [(rd_, n_, nnz_, 0, pi_, ii_, vv_, 0, 0, None, ("nrow", nr_)) for (rd_, n_, nnz_, nr_, pi_, ii_, vv_) in rect]):
            nrow = None
            if ri and ri[0] == "nrow": nrow = ri[1]; ri = None
            if prec in "zc" and q and ci % 2: continue
            nm = "c16_%sread%s_n%d_e%d_%s_%s_%s_%s%s%s%s" % (prec, rd, n, nnz, ("sym%d" % ci) if sym else "gen", pi, ii, vv, "_rhs" if rhs else "", "_pat" if pat_only else "", ("_rows%d" % nrow) if nrow else "")
            cdir = os.path.join(chk.scratch, "hbcase", nm)
            hbgen.write_case(cdir, reader=rd, n=n, nnz=nnz, sym=bool(sym), cplx=prec in "zc", ptr=I[pi], ind=I[ii], val=V[vv], rhscrd=rhs, pattern_only=bool(pat_only), nrow=nrow)
            nval = 0 if pat_only else (2 * nnz if prec in "zc" else nnz); big = 2 * nnz + n + 6
            uws = {"fgets.0": 101, "%sDumpLine.0" % prec: 90, "field_len.0": 30, "parse_int.0": 24, "parse_int.1": 24, "__isoc99_fscanf.0": 4, "__isoc99_fscanf.1": 22, "atoi.0": n + 3, "atoi.1": nnz + 2, "atof.0": nval + 2, "atof.1": V[vv][1] + 2,
                   "%sParseIntFormat.0" % prec: 24, "%sParseIntFormat.1" % prec: 24, "%sParseFloatFormat.0" % prec: 24, "%sParseFloatFormat.1" % prec: 24, "%sParseFloatFormat.2" % prec: 24,
                   "ReadVector.0": 42, "ReadVector.1": big, "%sReadValues.0" % prec: 28, "%sReadValues.1" % prec: 42, "%sReadValues.2" % prec: big, "%sread%s.0" % (prec, rd): 7}
            for k_ in range(24): uws["main.%d" % k_] = big
            fix = ["-DFIX_CP={%s}" % ",".join(map(str, cp)), "-DFIX_RI={%s}" % ",".join(map(str, ri + (0,)))] if cp else []
            hs.append(e1.Harness(nm, [E1H + "h16hb.c", REPO + "/SRC/%sread%s.c" % (prec, rd)] + mem, defs=[P, "-DREADER=%d" % (1 if rd == "hb" else 2)] + fix, unwind=max(nnz, n) + 2, unwindset=uws, timeout=1500, flags=HBFLAGS, incs=[cdir]))
    e1.run_harnesses(chk, hs, "C16 coordinate + fixed-width text readers", "coordinate: n <= %d, <= %d file entries in any order with symbolic positions and values, general and symmetric (diagonal present/absent), 1-based; HB/RB: n <= 3 (9 in two layouts), <= 9 stored entries, enumerated layouts; general files: symbolic pointer/index/value fields; symmetric files: every lower-stored pattern n <= 3 (diagonal present/absent) enumerated, values symbolic; CBMC bounds/pointer checks on every array the reader allocates" % (NBq, NEq))


# ------------------------------------------------------------------------------------------------ C15 incomplete LU
def icase(n, pat, colperm=0, permidx=0, tune="t122", symcols=0, milu=0, droprule=9, rowperm=0, trans=0, dropmode=0, nrhs=1, tiny=0, tiny_rc=None):
    return (n, hex(pat), colperm, permidx) + tuple(T[tune]) + (symcols, milu, droprule, rowperm, trans, dropmode, nrhs) + ((tiny,) if tiny or tiny_rc else ()) + (tuple(tiny_rc) if tiny_rc else ())


def check_C15(chk, tier):
    chk.assumptions += COMMON_ASSUME + ["ILU cases use structurally nonsingular patterns; most use a generic concrete matrix (or one symbolic column) with symbolic right-hand sides; MC64 row permutation only on concrete matrices (its log/exp arithmetic is modelled by fresh monotone atoms)",
                                        "info is checked to lie in [0,n]; that it COUNTS the replaced pivots is not checked (would need a hook on ilu_?pivotL)"]
    q = tier == "quick"
    for prec in (["d"] if q else ["d", "z", "s"]):
        cs = []
        shapes = [(2, 15), (2, 0b0110), (3, 511), (3, C.band(3, 1, 1)), (3, 0b101110011), (4, C.band(4, 1, 1)), (5, C.dense(5, 5)), (6, C.band(6, 2, 2))] + ([] if q else [(9, C.arrow(9)), (10, C.band(10, 4, 1))])
        for n, pat in shapes:
            if C.structural_rank(n, n, pat) < n: continue
            for dm in (0, 1, 2):
                for tr in (0, 1):
                    cs.append(icase(n, pat, symcols=0, trans=tr, dropmode=dm, milu=(n + dm) % 4, tune="t122" if n < 5 else "t2_4_4", nrhs=1 + (n % 2)))
            cs.append(icase(n, pat, symcols=0, rowperm=1, dropmode=0)); cs.append(icase(n, pat, symcols=0, rowperm=1, dropmode=1, trans=1, colperm=2))
            if n <= 3 and not (q and pat == 511): cs.append(icase(n, pat, symcols=1 << (n - 1), dropmode=1)); cs.append(icase(n, pat, symcols=1 << (n - 1), dropmode=2, droprule=0x0B, milu=2)); cs.append(icase(n, pat, symcols=1, dropmode=0, colperm=4, permidx=1))
        for pat in ((0b0110,) if q else (0b0110, 15, 0b1101)): cs.append(icase(2, pat, symcols=-1, dropmode=1)); cs.append(icase(2, pat, symcols=-1, dropmode=2))
        # panel (non-relaxed) path of the incomplete factorization, incl. columns whose L part is empty when they are reached (pivot row invented from the unpivoted rows):
        # relax = 1 tunings, 'hole' patterns, NATURAL and non-involutory caller orderings
        for pat in (0b0111, 0b0110, 15):
            for tn in ("t111", "t212"): cs.append(icase(2, pat, symcols=-1, dropmode=1, tune=tn)); cs.append(icase(2, pat, symcols=0, dropmode=0, tune=tn, trans=1))
        for n in (3, 4, 5, 6) if q else (3, 4, 5, 6, 8, 10):
            for p_ in range(0, n - 2):
                pat = C.hole2(n, p_)
                if C.structural_rank(n, n, pat) < n: continue
                for tn, dm in (("t111", 0), ("t212", 0), ("t313", 2), ("tn1n", 0), ("t122", 0)):
                    if q and n >= 5 and tn in ("t313", "t122"): continue
                    # (r,p) tiny: dropped with supernode {p}, so column r = p+2 has no pivot candidate left although row r is unpivoted (pivot row invented, info counts it)
                    cs.append(icase(n, pat, symcols=0, dropmode=dm, tune=tn, milu=(n + p_) % 4, nrhs=1 + (p_ % 2), trans=p_ % 2, tiny=1 << p_))
                    cs.append(icase(n, pat, symcols=0, dropmode=dm, tune=tn, colperm=4, permidx={3: 3, 4: 9, 5: 33, 6: 153}.get(n, 1), milu=p_ % 4, tiny=1 << p_))
                if n <= 4: cs.append(icase(n, pat, symcols=1 << p_, dropmode=0, tune="t111")); cs.append(icase(n, pat, symcols=1 << (p_ + 2), dropmode=0, tune="t212", tiny=1 << p_))
            # the same structure met under a non-involutory caller ordering: A's columns are those of the hole pattern taken in the order the permutation undoes
            if n >= 4:
                import itertools
                ps = list(itertools.permutations(range(n)))
                for p_ in range(0, n - 2):
                    for pi in ({4: (9, 16), 5: (33, 70), 6: (153, 500)}.get(n, (1,))):
                        pc = ps[pi]; inv = [0] * n
                        for j_ in range(n): inv[pc[j_]] = j_
                        for tn in ("t111", "t212", "tn1n"): cs.append(icase(n, C.permute_columns(n, C.hole2(n, p_), pc), colperm=4, permidx=pi, symcols=0, dropmode=0, tune=tn, milu=p_ % 4, tiny_rc=(p_ + 2, inv[p_]), nrhs=1 + p_ % 2))
            for j in range(1, n):
                if n <= 4 and C.structural_rank(n, n, C.hole(n, j)) == n: cs.append(icase(n, C.hole(n, j), symcols=0, dropmode=0, tune="t111", tiny=1 << (j - 1), colperm=4, permidx=3 if n == 3 else 9))
        for n, pat in ((3, 511), (3, C.band(3, 1, 1)), (4, C.band(4, 1, 1)), (5, C.dense(5, 5)), (6, C.band(6, 2, 2))):
            for tn in ("t111", "t212"): cs.append(icase(n, pat, symcols=0, dropmode=1, tune=tn, milu=n % 4)); cs.append(icase(n, pat, symcols=0, dropmode=2, tune=tn, trans=1, colperm=4, permidx=3))
        run_phase(chk, "gsisx/" + prec, H + "h_ilu.c", list(dict.fromkeys(cs)), ["C15."], prec=prec, crash_is_violation=True, crash_filter=lambda c: int(c[10]) == 0,   # concrete-matrix cases: one deterministic path, a crash there is a breakdown; crashes on symbolic-column paths are listed as inconclusive (see DESIGN 10)
                  budget_s=200 if q else 1500, validate_samples=0, path_timeout=40 if q else 600, key_extra=lambda c: {"has_symbolic_column": str(int(c[10] != 0))}, qtimeout_ms=5000 if q else 60000, env=CPLX_ENV if prec in "zc" else None,
                  bounds="structurally nonsingular patterns n<=6 (10 thorough) incl. zero diagonal; drop settings {default, disabled, aggressive}; MILU variants; NOROWPERM / LargeDiag_MC64; NOTRANS/TRANS; symbolic B, concrete or partly/fully symbolic A")


# ------------------------------------------------------------------------------------------------ C17 large-diagonal permutation
def check_C17(chk, tier):
    chk.assumptions += ["log model: every distinct argument of log() gets a fresh real atom with pairwise monotonicity/injectivity axioms and range [-745, 710]; mc64's arithmetic after the logs is add/subtract/compare, so obligations are linear over those atoms",
                        "stored entries are assumed nonzero (explicit zeros in the file of values are outside this harness); the unit scaling is checked in log form u_i + v_j + log|a_ij| <= 0 with equality on the matching, only when the routine returns 0 (return value 2 = mc64's 'scaling factors large' warning)",
                        "sizes n <= 3 (all patterns incl. structurally singular); the exp() applied by the ILU driver afterwards is a monotone bijection (assumed)"] + COMMON_ASSUME[2:]
    q = tier == "quick"
    c17_heap(chk, tier)
    for prec in (["d"] if q else ["d", "s", "z"]):
        cs = []
        for n in (1, 2, 3):
            for pat in C.all_patterns(n, n):
                if pat == 0: continue
                sing = int(C.structural_rank(n, n, pat) < n); nnzp = bin(pat).count("1")
                if n == 3 and q and not sing and nnzp > 5 and pat not in (511, C.band(3, 1, 1), C.arrow(3)): continue
                if n == 3 and sing and q and nnzp > 4: continue
                cs.append((n, hex(pat), -1 if (nnzp <= (6 if q else 9)) else 0b101, sing))
        run_phase(chk, "ldperm(job 5)/" + prec, H + "h_ldperm.c", list(dict.fromkeys(cs)), ["C17."], prec=prec, budget_s=220 if q else 1800, validate_samples=0, qtimeout_ms=5000 if q else 60000, path_timeout=60 if q else 600,
                  bounds="all 1x1, 2x2 patterns and (quick: selected; thorough: all) 3x3 patterns, symbolic nonzero magnitudes through the log model")
    c17_reach(chk, tier)


def c17_heap(chk, tier):
    """E1: one inductive step of mc64's indexed binary heap from an arbitrary valid state (covers call histories of any length)"""
    chk.assumptions += ["E1 heap step: representation invariant = Q(1..QLEN) distinct rows, L its inverse, heap order on D; heap capacity <= NB; keys range over NB+2 small integers "
                        "(the routines use D only through comparisons, so every total preorder of the keys is realised; arbitrary doubles in the thorough tier at NB = 5)"]
    nb = 7 if tier == "quick" else 10
    hs = [e1.Harness("c17_heap_op%d_iway%d" % (op, iw), [E1H + "h17heap.c", REPO + "/SRC/mc64ad.c"], defs=["-DPREC_D", "-DNB=%d" % nb, "-DOP=%d" % op, "-DIWAY=%d" % iw], unwind=nb + 2, timeout=1200 if tier == "quick" else 3000)
          for iw in (2, 1) for op in (1, 2, 3, 4)]
    if tier != "quick":
        hs += [e1.Harness("c17_heap_op%d_iway2_fullkeys" % op, [E1H + "h17heap.c", REPO + "/SRC/mc64ad.c"], defs=["-DPREC_D", "-DNB=5", "-DOP=%d" % op, "-DIWAY=2", "-DKEYS_FULL"], unwind=7, timeout=3000) for op in (1, 2, 3, 4)]
    e1.run_harnesses(chk, hs, "C17 mc64 heap: one step from every valid state", "heap capacity %d (depth %d), every valid heap / index state, every position / row argument; insert, key update, delete-root, delete-at-position; min-heap (job 5) and max-heap" % (nb, nb.bit_length()))


def c17_reach(chk, tier):
    """tie-heavy reach cases for mc64's heap paths: concrete entries +-2^k (k in -2..2) with exact base-2 logarithms; optionally one symbolic column whose log atoms the
    solver orders against the integers (exact ties are equality branches)"""
    q = tier == "quick"; cs = []
    for n, cnt, den in ((6, 150, 5), (7, 100, 4), (8, 150, 4), (9, 150, 3), (10, 100, 3), (12, 60, 3)) if q else ((6, 600, 5), (7, 600, 4), (8, 800, 4), (9, 800, 3), (10, 800, 3), (11, 400, 3), (12, 600, 3), (12, 300, 2)):
        for k, pat in enumerate(C.matchable_family(n, cnt, density=den)):
            cs.append((n, hex(pat), 0, 0, 1, k + 1)); cs.append((n, hex(pat), 0, 0, 1, 1000 + 7 * k))
    # inputs on which the Q/Q2 overlap defect of mc64wd_ (fixed, see known_findings.json) showed: dense root column with ties
    cs += [(4, "0x1afd", 0, 0, 1, 87796), (4, "0xe3bf", 0, 0, 1, 74567), (5, "0x09fcfe5", 0, 0, 1, 925), (5, "0x16ed977", 0, 0, 1, 55724), (6, "0xbd5ff7bff", 0, 0, 1, 29702), (6, "0xd1f58deff", 0, 0, 1, 50506), (7, "0x10e73aebeddf7", 0, 0, 1, 8701)]
    # measured on a seeded heap-index slip in mc64fd_: about 1 in 1000 tie-heavy matrices of order 11-12 at density 0.5 reaches the sift-up-then-touch-again history, none below order 10
    for n, cnt in ((11, 700), (12, 1300)) if q else ((10, 3000), (11, 4000), (12, 8000)):
        for k, pat in enumerate(C.matchable_family(n, cnt, seed=555 + n, density=5)): cs.append((n, hex(pat), 0, 0, 1, 3000 + k)); cs.append((n, hex(pat), 0, 0, 1, 9000 + 3 * k))
    for n, cnt in ((4, 60), (5, 60)) if q else ((4, 400), (5, 400)):
        for k, pat in enumerate(C.matchable_family(n, cnt, seed=31337, density=7)): cs.append((n, hex(pat), 0, 0, 1, 2000 + k))
    run_phase(chk, "ldperm(job 5) tie-heavy reach/d", H + "h_ldperm.c", list(dict.fromkeys(cs)), ["C17."], prec="d", budget_s=200 if q else 2400, validate_samples=0, qtimeout_ms=5000, path_timeout=60, env={"SLUSYM_LOG2": "1"},
              bounds="n = 6..12, pseudo-random patterns containing a perfect matching, concrete entries +-2^k (k in -2..2: many exact ties), exact base-2 logarithms; optimality through the dual certificate (and by enumeration for n = 6)")
    cs = []
    for n, cnt, den in ((4, 30, 7), (5, 10, 5), (6, 8, 5)) if q else ((4, 200, 7), (5, 60, 5), (6, 60, 5), (7, 30, 4)):
        for k, pat in enumerate(C.matchable_family(n, cnt, seed=977, density=den)): cs.append((n, hex(pat), 1 << (k % n), 0, 1, k + 1))
    run_phase(chk, "ldperm(job 5) one symbolic column among +-2^k entries/d", H + "h_ldperm.c", list(dict.fromkeys(cs)), ["C17."], prec="d", budget_s=100 if q else 1500, validate_samples=0, qtimeout_ms=5000, path_timeout=60, env={"SLUSYM_LOG2": "1"},
              bounds="n = 4..6 (7 thorough): one column with symbolic magnitudes (log atoms ordered by the solver against the integer logarithms of the other entries), other entries +-2^k")


REGISTRY = {"C17": check_C17, "C15": check_C15, "C16": check_C16, "C13": check_C13, "C12": check_C12, "C11": check_C11, "C09": check_C09, "C19": check_C19, "C20": check_C20, "C07": check_C07, "C14": check_C14, "C10": check_C10, "C08": check_C08, "C18": check_C18, "C05": check_C05, "C06": check_C06, "C01": check_C01, "C02": check_C02, "C03": check_C03, "C04": check_C04}


def run(pid, tier):
    if pid not in REGISTRY:
        print("no check registered for", pid); return 2
    chk = Check(pid, tier)
    REGISTRY[pid](chk, tier)
    return chk.finish()


def replay(pid, path):
    """re-run one recorded counterexample against the real code: E2 records are replayed in the instrumented binary in concrete mode and in a native build of the same
    sources + harness; E1 records are replayed natively from the recorded nondet values. exit 1 (and a VIOLATION line) iff it reproduces."""
    import e2, e2phase, hashlib
    rec = json.load(open(path)); rp = rec.get("replay", {}); key = rec.get("key", {})
    print("replaying", json.dumps(key)[:400])
    chk = Check(pid, "quick")
    if key.get("engine") == "E2" and rp.get("case") is not None and rp.get("values") is not None:
        b = e2phase.get_build(chk, rp.get("prec", "d"), bool(rp.get("vendor")), bool(rp.get("idx64")), False)
        hname = os.path.splitext(os.path.basename(rp["harness"]))[0] + "_rp"; exe = b.build_harness(rp["harness"], hname, rp.get("defs", ())); ne = b.build_native(rp["harness"], hname, rp.get("defs", ()))
        vf = os.path.join(chk.scratch, "vals.txt"); open(vf, "w").write("".join("%s %s\n" % kv for kv in rp["values"].items()))
        hit = False
        for nm, x in (("instrumented-concrete", exe), ("native", ne)):
            rc, err, recs = e2phase.concrete_run(x, rp["case"], vf)
            r = any(q.get("k") in ("V", "C") and q.get("id") == key.get("assert_id") for q in recs) or rc in (-11, -6, 139, 134) or (str(key.get("assert_id", "")).startswith("div-by-zero:") and any(q.get("k") == "E" and str(q.get("ev", "")).startswith("div-by-zero") for q in recs)); hit = hit or r
            print("%s: %s (rc=%s)" % (nm, "reproduced" if r else "not reproduced", rc))
        if hit: print("VIOLATION property=%s replay=%s" % (pid, path))
        return 1 if hit else 0
    if key.get("engine") == "E1" and rp.get("sources"):
        wd = os.path.join(chk.scratch, "e1rp"); os.makedirs(wd, exist_ok=True)
        rep, out = e1.native_replay(wd, "rp", rp["sources"], rp.get("defs", []), rp.get("nondet_values") or [], stubs=())
        print("native replay:", {True: "reproduced", False: "not reproduced", None: "build failed"}[rep], out[-400:])
        if rep: print("VIOLATION property=%s replay=%s" % (pid, path))
        return 1 if rep else 0
    print("record has no replayable payload (path/monitor record): ", rec.get("what", "")[:300]); return 0
