"""E2 driver: build the instrumented binary from /repo's current sources and explore symbolic paths."""
import os, re, sys, json, time, shutil, subprocess, tempfile, threading, queue, hashlib
from concurrent.futures import ThreadPoolExecutor

VERIF = os.path.dirname(os.path.dirname(os.path.abspath(__file__)))
REPO = os.environ.get("SLU_REPO", "/repo")
BUILD = os.path.join(VERIF, "build")
INSTR = os.path.join(BUILD, "slusym-instr")
RTOBJ = os.path.join(BUILD, "rt.o")
NPROC = int(os.environ.get("VERIF_JOBS", "16"))

CFLAGS = ["-O1", "-ffp-contract=off", "-fno-vectorize", "-fno-slp-vectorize", "-fno-unroll-loops", "-fno-builtin",
          "-gline-tables-only", "-DNDEBUG", "-DPRNTlevel=0", "-DDEBUGlevel=0", "-Wno-everything", "-DXIAOYELI_SUPERLU_VERIF"]   # the guard enables the repo's verification hooks (MANIFEST.hooks)


def run(cmd, **kw):
    r = subprocess.run(cmd, stdout=subprocess.PIPE, stderr=subprocess.STDOUT, text=True, **kw)
    if r.returncode != 0:
        raise RuntimeError("command failed (%d): %s\n%s" % (r.returncode, " ".join(cmd), r.stdout[-4000:]))
    return r.stdout


def ensure_tools():
    """(re)build slusym-instr and the runtime object if missing or stale (setup_cmd does this too)."""
    os.makedirs(BUILD, exist_ok=True)
    src = os.path.join(VERIF, "slusym")
    def stale(out, ins):
        return not os.path.exists(out) or any(os.path.getmtime(i) > os.path.getmtime(out) for i in ins)
    if stale(INSTR, [src + "/instr.cpp"]):
        cxx = subprocess.check_output(["llvm-config-14", "--cxxflags"], text=True).split()
        cxx = [f for f in cxx if f not in ("-fno-exceptions",) and not f.startswith("-std=")]
        ld = subprocess.check_output(["llvm-config-14", "--ldflags"], text=True).split()
        run(["clang++-14", "-O1", src + "/instr.cpp"] + cxx + ["-std=c++17"] + ld + ["-lLLVM-14", "-o", INSTR + ".tmp"])
        os.replace(INSTR + ".tmp", INSTR)
    if stale(RTOBJ, [src + "/rt.cpp", src + "/slusym.h"]):
        run(["clang++-14", "-O1", "-std=c++17", "-fexceptions", "-c", src + "/rt.cpp", "-o", RTOBJ + ".tmp"])
        os.replace(RTOBJ + ".tmp", RTOBJ)


def source_sets():
    """Parse SRC/CMakeLists.txt for the common sources and the per-precision lists (fallback: glob by prefix)."""
    txt = open(os.path.join(REPO, "SRC/CMakeLists.txt")).read()
    sets = {}
    m = re.search(r"set\(sources(.*?)\)", txt, re.S)
    sets["common"] = re.findall(r"(\S+\.c)", m.group(1))
    for key, name in (("s", "single"), ("d", "double"), ("c", "complex"), ("z", "complex16")):
        m = re.search(r"if\s*\(enable_%s\)(.*?)endif" % name, txt, re.S)
        blk = m.group(1)
        m2 = re.search(r"list\(APPEND sources(.*?)\)", blk, re.S)
        sets[key] = re.findall(r"(\S+\.c)", m2.group(1))
    return sets


CBLAS = {"d": ["dasum", "daxpy", "dcopy", "ddot", "dgemv", "dger", "dnrm2", "dscal", "dswap", "dtrsv", "idamax", "dsymv", "dsyr2", "drot"],
         "s": ["sasum", "saxpy", "scopy", "sdot", "sgemv", "sger", "snrm2", "sscal", "sswap", "strsv", "isamax", "ssymv", "ssyr2", "srot"],
         "z": ["zaxpy", "zcopy", "zdotc", "zgemv", "zgerc", "zscal", "zswap", "ztrsv", "izamax", "dzasum", "dznrm2", "dcabs1", "zhemv", "zher2"],
         "c": ["caxpy", "ccopy", "cdotc", "cgemv", "cgerc", "cscal", "cswap", "ctrsv", "icamax", "scasum", "scnrm2", "chemv", "cher2"]}


class Build:
    """One instrumented executable = library sources of one precision (+CBLAS) + one harness."""

    def __init__(self, workdir, prec="d", vendor=False, idx64=False, asan=False, store_monitor=True, extra_defs=(), extra_src=()):
        self.wd = workdir; self.prec = prec; self.vendor = vendor; self.idx64 = idx64; self.asan = asan
        self.store_monitor = store_monitor; self.extra_defs = list(extra_defs); self.extra_src = list(extra_src)
        self.libbc = None; self.table = None
        os.makedirs(workdir, exist_ok=True)

    def libflags(self):
        f = list(CFLAGS) + ["-I" + REPO + "/SRC", "-I" + VERIF + "/harness/compat"]
        if self.vendor: f.append("-DUSE_VENDOR_BLAS")
        if self.idx64: f.append("-DXSDK_INDEX_SIZE=64")
        if self.asan: f += ["-fsanitize=address,undefined", "-fno-sanitize=float-divide-by-zero,float-cast-overflow", "-fno-sanitize-recover=undefined", "-fsanitize-address-use-after-scope"]
        return f + self.extra_defs

    def build_lib(self):
        ensure_tools()
        sets = source_sets()
        srcs = [REPO + "/SRC/" + s for s in sets["common"] + sets[self.prec] if s != "sp_ienv.c"]
        # z needs dmach/dlacon-independent helpers already in its list; c/z lists contain [sd]mach via cmake? add if missing
        for need in ("dmach.c",) + (("smach.c",) if self.prec in "sc" else ()):   # mc64ad.c (common) calls dmach in every precision
            if (REPO + "/SRC/" + need) not in srcs: srcs.append(REPO + "/SRC/" + need)
        srcs += [REPO + "/CBLAS/" + b + ".c" for b in CBLAS[self.prec]]
        if self.prec == "z": srcs += [REPO + "/CBLAS/" + b + ".c" for b in ("dcopy", "daxpy", "dscal", "dasum", "idamax", "dnrm2", "ddot")]
        if self.prec == "c": srcs += [REPO + "/CBLAS/" + b + ".c" for b in ("scopy", "saxpy", "sscal", "sasum", "isamax", "snrm2", "sdot")]
        srcs += self.extra_src
        srcs = [s for s in dict.fromkeys(srcs) if os.path.exists(s)]
        self.lib_sources = srcs
        flags = self.libflags()
        objs = []
        def cc(s):
            o = os.path.join(self.wd, hashlib.md5(s.encode()).hexdigest()[:8] + "_" + os.path.basename(s)[:-2] + ".bc")
            inc = ["-I" + REPO + "/CBLAS"] if "/CBLAS/" in s else []
            run(["clang-14"] + flags + inc + ["-c", "-emit-llvm", s, "-o", o]); return o
        with ThreadPoolExecutor(NPROC) as ex: objs = list(ex.map(cc, srcs))
        lib = os.path.join(self.wd, "lib.bc")
        run(["llvm-link-14", "-o", lib] + objs)
        self.libbc = os.path.join(self.wd, "libt.bc")
        run([INSTR, "--tag-lib", lib, self.libbc])
        for o in objs: os.remove(o)
        os.remove(lib)
        return self

    def build_harness(self, harness_c, name, defs=()):
        """returns path of the instrumented executable"""
        hb = os.path.join(self.wd, name + ".h.bc")
        hflags = [f for f in self.libflags()] + ["-I" + VERIF + "/slusym", "-I" + VERIF + "/harness/e2", "-DPREC_" + self.prec.upper()] + list(defs)
        run(["clang-14"] + hflags + ["-c", "-emit-llvm", harness_c, "-o", hb])
        allbc = os.path.join(self.wd, name + ".all.bc"); run(["llvm-link-14", "-o", allbc, self.libbc, hb])
        ibc = os.path.join(self.wd, name + ".inst.bc"); table = os.path.join(self.wd, name + ".table.json")
        cmd = [INSTR] + (["--store-monitor"] if self.store_monitor else []) + ["--table", table, allbc, ibc]
        out = run(cmd)
        obj = os.path.join(self.wd, name + ".o"); run(["clang-14", "-O1", "-c", ibc, "-o", obj])
        exe = os.path.join(self.wd, name)
        link = ["clang++-14", obj, RTOBJ, "-o", exe, "-lz3", "-lm"]
        if self.asan: link += ["-fsanitize=address,undefined"]
        run(link)
        for f in (hb, allbc, ibc, obj): os.remove(f)
        self.table = json.load(open(table))
        return exe

    def build_native(self, harness_c, name, defs=()):
        """uninstrumented native build of the same sources + harness (replay / translator validation)."""
        flags = ["-O0", "-ffp-contract=off", "-DNDEBUG", "-DPRNTlevel=0", "-DDEBUGlevel=0", "-Wno-everything", "-I" + REPO + "/SRC", "-I" + VERIF + "/harness/compat", "-I" + VERIF + "/slusym",
                 "-I" + VERIF + "/harness/e2", "-DPREC_" + self.prec.upper(), "-DSLUSYM_NATIVE", "-DXIAOYELI_SUPERLU_VERIF"] + list(defs) + self.extra_defs
        if self.vendor: flags.append("-DUSE_VENDOR_BLAS")
        if self.idx64: flags.append("-DXSDK_INDEX_SIZE=64")
        objs = []
        def cc(s):
            o = os.path.join(self.wd, "n_" + hashlib.md5(s.encode()).hexdigest()[:8] + ".o")
            inc = ["-I" + REPO + "/CBLAS"] if "/CBLAS/" in s else []
            run(["cc"] + flags + inc + ["-c", s, "-o", o]); return o
        with ThreadPoolExecutor(NPROC) as ex: objs = list(ex.map(cc, self.lib_sources + [harness_c]))
        exe = os.path.join(self.wd, name + ".native")
        run(["c++", "-o", exe] + objs + [RTOBJ, "-lz3", "-lm"])
        for o in objs: os.remove(o)
        return exe


class Explorer:
    """DFS over fork records by re-execution; cases x paths distributed over NPROC workers."""

    def __init__(self, exe, outdir, qtimeout_ms=10000, budget_s=600, env=None, path_timeout=300):
        self.exe = exe; self.outdir = outdir; self.qt = qtimeout_ms; self.budget = budget_s; self.env = env or {}
        self.path_timeout = path_timeout
        self.lock = threading.Lock()
        self.stats = dict(cases=0, paths=0, infeasible=0, outside=0, aborted=0, asserts=0, ok=0, viol=0, unk=0, queries=0, q_unsat=0, q_sat=0, q_unk=0,
                          qsec=0.0, decisions=0, maxpc=0, crashes=0, timeouts=0, pending=0, events={}, by_id={}, notes_sum={}, global_stores=0, ws_viol=0, heap_errors=0)
        self.nevlog = 0; self.ncrlog = 0; self.reach = set(); self.reach_sym = set(); self.divs = []; self.viols = []; self.unks = []; self.crashlog = []; self.samples = []; self.case_paths = {}; self.case_sec = {}
        os.makedirs(outdir, exist_ok=True)

    def _one(self, case, prefix):
        args = [str(a) for a in case]
        tag = hashlib.md5((" ".join(args) + "|" + prefix).encode()).hexdigest()[:12]
        of = os.path.join(self.outdir, "o_" + tag + ".jsonl")
        env = dict(os.environ); env.update(self.env)
        env.update(SLUSYM_DECISIONS=prefix, SLUSYM_OUT=of, SLUSYM_QDIR=self.outdir, SLUSYM_QTIMEOUT_MS=str(self.qt))
        env.setdefault("ASAN_OPTIONS", "detect_leaks=0:abort_on_error=0:exitcode=77:allocator_may_return_null=1")
        env.setdefault("UBSAN_OPTIONS", "halt_on_error=1:exitcode=78:print_stacktrace=1")
        try:
            r = subprocess.run([self.exe] + args, env=env, stdout=subprocess.PIPE, stderr=subprocess.PIPE, text=True, timeout=self.path_timeout, errors="replace")
            rc, err, sout = r.returncode, r.stderr, r.stdout
        except subprocess.TimeoutExpired as e:
            rc, err, sout = -999, "path timeout", ""
        recs = []
        if os.path.exists(of):
            for l in open(of):
                try: recs.append(json.loads(l))
                except Exception: pass
            os.remove(of)
        return rc, err, sout, recs

    def explore(self, cases, on_path=None):
        """cases: list of tuples of ints. returns stats."""
        t0 = time.time(); work = queue.LifoQueue(); inflight = [0]; cv = threading.Condition()
        for c in reversed(cases): work.put((tuple(c), ""))
        self.stats["cases"] += len(cases)
        def worker():
            while True:
                with cv:
                    while work.empty() and inflight[0] > 0: cv.wait(0.2)
                    if work.empty() and inflight[0] == 0: cv.notify_all(); return
                    if time.time() - t0 > self.budget: cv.notify_all(); return
                    try: case, prefix = work.get_nowait()
                    except queue.Empty: continue
                    inflight[0] += 1
                try:
                    rc, err, sout, recs = self._one(case, prefix)
                    self._absorb(case, prefix, rc, err, sout, recs, work, on_path)
                finally:
                    with cv: inflight[0] -= 1; cv.notify_all()
        ths = [threading.Thread(target=worker) for _ in range(NPROC)]
        for t in ths: t.start()
        for t in ths: t.join()
        self.stats["pending"] += work.qsize()
        return self.stats

    def _absorb(self, case, prefix, rc, err, sout, recs, work, on_path):
        with self.lock:
            st = self.stats; got_p = False
            for r in recs:
                k = r.get("k")
                if k == "F": work.put((case, r["p"]))
                elif k == "P":
                    got_p = True; st["paths"] += 1
                    for key in ("asserts", "ok", "viol", "unk", "queries", "q_unsat", "q_sat", "q_unk", "decisions", "global_stores", "ws_viol", "heap_errors"): st[key] += r.get(key, 0)
                    st["qsec"] += r.get("qsec", 0); st["maxpc"] = max(st["maxpc"], r.get("pc", 0))
                    if r.get("end") == "outside": st["outside"] += 1
                    if r.get("end") == "exit": st["aborted"] += 1
                    for e in r.get("events", []): st["events"][e] = st["events"].get(e, 0) + 1
                    for i, (a, b) in r.get("by_id", {}).items():
                        x = st["by_id"].setdefault(i, [0, 0]); x[0] += a; x[1] += b
                    for n, v in r.get("notes", {}).items(): st["notes_sum"][n] = st["notes_sum"].get(n, 0) + v
                    self.reach.update(r.get("reach", [])); self.reach_sym.update(r.get("reach_sym", []))
                    self.case_paths[case] = self.case_paths.get(case, 0) + 1; self.case_sec[case] = self.case_sec.get(case, 0) + r.get("sec", 0)
                    if len(self.samples) < 3: self.samples.append({"case": list(case), "path": r["path"], "asserts": r["asserts"], "queries": r["queries"], "notes": r.get("notes", {})})
                    if on_path: on_path(case, r, sout)
                elif k == "I": st["infeasible"] += 1; got_p = True
                elif k == "V": self.viols.append({"case": list(case), **r})
                elif k == "U": self.unks.append({"case": list(case), **r})
                elif k == "E":
                    if self.nevlog < 20: self.nevlog += 1; self.crashlog.append({"case": list(case), "event": r})     # events and crashes are capped separately (events must not crowd out crashes)
                    if str(r.get("ev", "")).startswith("div-by") and len(self.divs) < 2000: self.divs.append({"case": list(case), **r})
                elif k == "C":
                    self.viols.append({"case": list(case), "concrete": True, "path": prefix, **r})
            if rc == -999: st["timeouts"] += 1
            elif rc != 0 and not (got_p and rc in (255, 1, 0)):
                st["crashes"] += 1
                if self.ncrlog < 60: self.ncrlog += 1; self.crashlog.append({"case": list(case), "prefix": prefix, "rc": rc, "stderr": err[-3000:]})
            elif rc != 0 and any(s in err for s in ("AddressSanitizer", "runtime error:")):
                st["crashes"] += 1
                if self.ncrlog < 60: self.ncrlog += 1; self.crashlog.append({"case": list(case), "prefix": prefix, "rc": rc, "stderr": err[-3000:]})


def cvc5_recheck(unks, timeout=30):
    """second solver on inconclusive obligations (run in parallel): returns list of (unk, verdict)"""
    def one(u):
        q = u.get("query")
        if not q or not os.path.exists(q): return (u, "noquery")
        try:
            r = subprocess.run(["cvc5", "--tlimit=%d" % (timeout * 1000), q], stdout=subprocess.PIPE, stderr=subprocess.STDOUT, text=True, timeout=timeout + 10)
            out = r.stdout.strip().splitlines()
            v = out[0].strip() if out else "unknown"
            if "(error" in r.stdout: v = "error"
            if v not in ("sat", "unsat", "unknown", "error"): v = "timeout" if "timeout" in v or "interrupted" in v else "unknown"
        except subprocess.TimeoutExpired:
            v = "timeout"
        return (u, v)
    with ThreadPoolExecutor(NPROC) as ex: return list(ex.map(one, unks))
