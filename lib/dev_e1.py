#!/usr/bin/env python3
"""dev_e1.py <name> <unwind> <defs,comma> <sources...> : run ONE E1 harness (main + witness twin) and print verdicts (development aid)."""
import sys, os, json
sys.path.insert(0, os.path.dirname(os.path.abspath(__file__)))
import e1
name, unwind, defs = sys.argv[1], int(sys.argv[2]), [d for d in sys.argv[3].split(",") if d]
h = e1.Harness(name, sys.argv[4:], defs=defs, unwind=unwind, timeout=int(os.environ.get("DEV_TO", "600")))
r = h.run("/tmp/dev_e1_" + name)
m = r["main"]; print(name, m["verdict"], "props", m["props"], "sec", m["sec"], "rss", m["rss_kb"], "witness", r["witness_reachable"], "adapt", m.get("adapted_loops"))
for f in m["failed"][:8]: print("  FAILED", f)
for f in m["unwinding_failed"][:4]: print("  UNWIND", f)
if m.get("native_replay"): print("  replay:", m["native_replay"]["reproduced"], m["native_replay"]["output"][-300:])
if m["verdict"] == "ERROR": print(m.get("tail"))
