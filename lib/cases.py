"""Case enumeration helpers (patterns, structural rank, tuning vectors)."""
import itertools


def pat_bits(m, n, entries):
    b = 0
    for (i, j) in entries: b |= 1 << (j * m + i)
    return b


def pat_entries(m, n, pat):
    return [(i, j) for j in range(n) for i in range(m) if (pat >> (j * m + i)) & 1]


def structural_rank(m, n, pat):
    """maximum bipartite matching columns->rows"""
    adj = [[i for i in range(m) if (pat >> (j * m + i)) & 1] for j in range(n)]
    match_row = [-1] * m
    def aug(j, seen):
        for i in adj[j]:
            if i in seen: continue
            seen.add(i)
            if match_row[i] < 0 or aug(match_row[i], seen): match_row[i] = j; return True
        return False
    return sum(1 for j in range(n) if aug(j, set()))


def all_patterns(m, n):
    return list(range(1 << (m * n)))


def dense(m, n): return (1 << (m * n)) - 1


def band(n, lo, up):
    return pat_bits(n, n, [(i, j) for i in range(n) for j in range(n) if -up <= i - j <= lo])


def arrow(n, tip_last=True):
    e = [(i, i) for i in range(n)]
    k = n - 1 if tip_last else 0
    e += [(k, j) for j in range(n)] + [(i, k) for i in range(n)]
    return pat_bits(n, n, set(e))


def lshape(n):
    """dense first column + dense last row + diagonal: pivoting on (0,0) gives no fill at all, pivoting on (n-1,0) fills the factors completely"""
    return pat_bits(n, n, set([(i, i) for i in range(n)] + [(i, 0) for i in range(n)] + [(n - 1, j) for j in range(n)]))


def full_diag_plus(n, max_off):
    """every pattern with full diagonal and <= max_off off-diagonal entries"""
    off = [(i, j) for i in range(n) for j in range(n) if i != j]
    diag = [(i, i) for i in range(n)]
    out = []
    for k in range(max_off + 1):
        for c in itertools.combinations(off, k): out.append(pat_bits(n, n, diag + list(c)))
    return out


# (panel, relax, maxsuper, rowblk, colblk, fill)
TUNINGS = {
    "t111": (1, 1, 1, 1, 1, 20),      # singleton supernodes, panel 1, 2-D blocking
    "t212": (2, 1, 2, 1, 1, 20),      # panel 2, supernodes up to 2
    "t122": (1, 2, 2, 1, 1, 20),      # relaxed supernodes of 2, sup-col update outside panel
    "tn1n": (8, 1, 8, 20, 20, 20),    # wide panel, big supernodes, 1-D update
    "t1nn_f1": (1, 8, 8, 20, 20, 1),  # relaxed everything, fill estimate 1 -> expansions
    "t221_f1": (2, 2, 1, 1, 1, 1),    # relax > maxsuper order, expansions
    "t313": (3, 1, 3, 2, 2, 20),
    "t133": (1, 3, 3, 2, 1, 2),
    "t1_8_8": (1, 8, 8, 20, 20, 20),  # relaxed supernode of up to 8 columns, panel 1: column_bmod carries the updates
    "t4_1_8_2d": (4, 1, 8, 2, 2, 20), # 2-D blocking with 2x2 blocks
    "t2_4_4": (2, 4, 4, 3, 3, 20),
}


def symm_family(n, count, seed=12345, density=3):
    """deterministic family of structurally symmetric patterns with full diagonal (for SymmetricMode / etree-shape reach cases)"""
    out = []; x = seed
    for _ in range(count):
        e = [(i, i) for i in range(n)]
        for i in range(n):
            for j in range(i):
                x = (1103515245 * x + 12345) & 0x7fffffff
                if (x >> 8) % 10 < density: e += [(i, j), (j, i)]
        out.append(pat_bits(n, n, set(e)))
    return list(dict.fromkeys(out))

TUNINGS["t112_f1"] = (1, 1, 2, 1, 1, 1)       # no relaxed supernodes, fill estimate 1: storage follows the actual fill
TUNINGS["t214_f1"] = (2, 1, 4, 20, 20, 1)
TUNINGS["t_sym"] = (4, 6, 8, 20, 20, 20)     # relaxed supernodes up to 6 columns: heap_relax_snode / relax_snode subtree logic
TUNINGS["t_dflt"] = (8, 10, 12, 20, 20, 20)  # close to the library defaults (relax 10)


def matchable_family(n, count, seed=4242, density=4):
    """deterministic family of square patterns that contain a perfect matching (a random permutation plus random extra entries, density/10)"""
    out = []; x = seed
    def rnd():
        nonlocal x
        x = (1103515245 * x + 12345) & 0x7fffffff
        return x >> 8
    for _ in range(count):
        p = list(range(n))
        for i in range(n - 1, 0, -1):
            j = rnd() % (i + 1); p[i], p[j] = p[j], p[i]
        e = {(p[j], j) for j in range(n)}
        for i in range(n):
            for j in range(n):
                if rnd() % 10 < density: e.add((i, j))
        out.append(pat_bits(n, n, e))
    return list(dict.fromkeys(out))


def hole(n, j):
    """tridiagonal pattern whose column j keeps only its super-diagonal entry (row j-1): structurally nonsingular (columns j-1 and j are matched crosswise), but with
    diagonal pivoting column j has no candidate row left when it is reached -- the zero-pivot / invented-fill-row path of the incomplete factorization"""
    e = [(i, c) for i in range(n) for c in range(n) if abs(i - c) <= 1 and not (c == j and i >= j)]
    return pat_bits(n, n, e)


def hole2(n, p):
    """tridiagonal pattern modified around columns p, p+1, p+2 = (p, q, r): column r keeps only its entry in row p, the sub-diagonal entries (q,p) and (r,q) are removed and (r,p)
    is added. Structurally nonsingular (p and r matched crosswise). When (r,p) is numerically tiny the incomplete factorization drops it with supernode {p} (while column q is
    processed), so column r reaches the pivot step with an empty L part although row r is still unpivoted: the invented-fill-row path of ?gsitrf"""
    q, r = p + 1, p + 2
    e = {(i, c) for i in range(n) for c in range(n) if abs(i - c) <= 1}
    e -= {(q, p), (r, q)}; e = {(i, c) for (i, c) in e if c != r} | {(p, r), (r, p)}
    return pat_bits(n, n, e)


def permute_columns(n, pat, perm_c):
    """pattern A with A[:, j] = H[:, perm_c[j]]: factoring A under the column permutation perm_c (perm_c[j] = new position of column j) meets the structure of H"""
    e = pat_entries(n, n, pat); inv = [0] * n
    for j in range(n): inv[perm_c[j]] = j
    return pat_bits(n, n, [(i, inv[c]) for (i, c) in e])
