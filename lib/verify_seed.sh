#!/bin/bash
# verify_seed.sh <id> <srcdir-with-seed>  : independently confirm a seeded change (tests pass with it; demo fails with it, passes without)
# writes /verif/seeded/<id>/{patch.diff,demo*,meta.json,verified.txt}
set -u
ID=$1; SRC=$2; W=/tmp/vf_$ID; OUT=/verif/seeded/$ID
rm -rf $W; git -C /repo worktree prune; git -C /repo worktree add -q --detach $W HEAD || exit 1
mkdir -p $OUT; cp $SRC/seed/patch.diff $OUT/patch.diff; cp /repo/SRC/superlu_config.h $W/SRC/ 2>/dev/null; cp $SRC/seed/meta.json $OUT/meta_agent.json 2>/dev/null; cp $SRC/seed/demo* $OUT/ 2>/dev/null
cd $W
build() { cmake -G Ninja -S $W -B $W/_build -DCMAKE_BUILD_TYPE=RelWithDebInfo >/dev/null 2>&1 && cmake --build $W/_build -j8 >/dev/null 2>&1; }
demo() { # compile the demo against this worktree
  if [ -f $OUT/demo.sh ]; then (cd $OUT && WT=$W bash demo.sh); return $?; fi
  sed "s#/tmp/wtb\?_[A-Za-z0-9_]*#$W#g" $OUT/demo.c > $W/demo_v.c
  EXTRA=""; [ -f $OUT/ccargs ] && EXTRA=$(sed "s#\$W#$W#g" $OUT/ccargs)
  cc -I$W/SRC -DUSE_VENDOR_BLAS $W/demo_v.c $EXTRA $W/_build/SRC/libsuperlu.a -lopenblas -lm -o $W/demo_v 2>$W/demo_cc.log || { cat $W/demo_cc.log | head -5; return 99; }
  (cd $W && timeout 300 ./demo_v >$W/demo_out.txt 2>&1); return $?
}
{
echo "seed $ID verification $(date -u)"
git apply $OUT/patch.diff || { echo "PATCH DOES NOT APPLY"; exit 1; }
build || echo "BUILD FAILED with patch"
T=$(ctest --test-dir $W/_build -j8 --timeout 900 2>&1 | grep -E "tests passed|tests failed" | tail -1); echo "with patch: ctest: $T"
demo; R1=$?; echo "with patch: demo exit $R1: $(tail -2 $W/demo_out.txt 2>/dev/null | tr '\n' ' ')"
git checkout -- . ; build || echo "BUILD FAILED without patch"
demo; R0=$?; echo "without patch: demo exit $R0: $(tail -2 $W/demo_out.txt 2>/dev/null | tr '\n' ' ')"
if echo "$T" | grep -q "100% tests passed" && [ $R1 -ne 0 ] && [ $R1 -ne 99 ] && [ $R0 -eq 0 ]; then echo "VERIFIED"; else echo "NOT VERIFIED"; fi
} > $OUT/verified.txt 2>&1
cd /; git -C /repo worktree remove --force $W
tail -1 $OUT/verified.txt
