#!/usr/bin/env python3
"""dev_run.py <harness.c> <prec> <case args...> : build (cached in /tmp/dev_e2_<prec>) and explore ONE case; print path/assertion statistics (development aid)."""
import sys, os, json
sys.path.insert(0, os.path.dirname(os.path.abspath(__file__)))
import e2
h, prec = sys.argv[1], sys.argv[2]; case = tuple(sys.argv[3:])
extra = tuple(os.environ.get("DEV_EXTRA_SRC", "").split()) if os.environ.get("DEV_EXTRA_SRC") else ()
wd = "/tmp/dev_e2_%s%s%s" % (prec, "_a" if os.environ.get("DEV_ASAN") else "", os.environ.get("DEV_TAG", ""))
b = e2.Build(wd, prec, asan=bool(os.environ.get("DEV_ASAN")), extra_src=extra)
if not os.path.exists(wd + "/libt.bc") or os.environ.get("DEV_REBUILD"): b.build_lib()
else: b.libbc = wd + "/libt.bc"
name = os.path.splitext(os.path.basename(h))[0]
exe = b.build_harness(h if os.path.isabs(h) else os.path.join(e2.VERIF, "harness/e2", h), name)
ex = e2.Explorer(exe, wd + "/out", qtimeout_ms=int(os.environ.get("DEV_QT", "8000")), budget_s=int(os.environ.get("DEV_BUDGET", "120")), env={"SLUSYM_NAMEDIV": "1"} if prec in "zc" else {}, path_timeout=120)
st = ex.explore([case])
print(json.dumps({k: st[k] for k in ("paths", "infeasible", "outside", "aborted", "asserts", "ok", "viol", "unk", "crashes", "timeouts", "pending", "notes_sum", "events", "ws_viol", "heap_errors", "global_stores")}))
print("by_id:", json.dumps(st["by_id"]))
for v in ex.viols[:6]: print("VIOL", v.get("id"), v.get("path"), json.dumps({k: x[0] for k, x in (v.get("model") or {}).items()})[:300])
for c in ex.crashlog[:3]: print("CRASH", json.dumps(c)[:1500])
