"""Common plumbing of the checks: result collection, known findings, replay files, evidence, exit code."""
import os, sys, json, time, fnmatch, hashlib, shutil, tempfile, atexit

VERIF = os.path.dirname(os.path.dirname(os.path.abspath(__file__)))
REPO = os.environ.get("SLU_REPO", "/repo")
OUT = os.environ.get("VERIF_OUT", VERIF)   # evidence/ and replays/ go here (seed evaluation redirects it; registered commands use /verif)


def load_known():
    p = os.path.join(VERIF, "known_findings.json")
    if not os.path.exists(p): return []
    return json.load(open(p)).get("findings", [])


class Check:
    def __init__(self, pid, tier, technique_level="model_checking"):
        self.pid = pid; self.tier = tier; self.level = technique_level
        self.seed = int(os.environ.get("VERIF_SEED", "0"))
        self.t0 = time.time()
        self.violations = []      # dicts: {key, what, replay}
        self.known_hits = []
        self.inconclusive = []    # strings
        self.phases = []          # dict per engine phase
        self.assumptions = []
        self.samples = []
        self.trusted = []
        self.scratch = tempfile.mkdtemp(prefix="slu_%s_" % pid, dir=os.environ.get("TMPDIR", "/tmp"))
        atexit.register(lambda: shutil.rmtree(self.scratch, ignore_errors=True))
        self.known = [k for k in load_known() if k.get("property") == pid and k.get("kind") == "known"]

    # ------------------------------------------------------------------ violations
    def violation(self, key, what, replay_obj):
        """key: dict identifying the failure (engine, harness, assert_id, case...) used to match known findings"""
        for k in self.known:
            mt = k.get("match", {})
            if all(fnmatch.fnmatch(str(key.get(f, "")), str(v)) for f, v in mt.items()):
                if not any(h["finding"] is k for h in self.known_hits): self.known_hits.append({"finding": k, "key": key})
                return False
        d = os.path.join(OUT, "replays", self.pid); os.makedirs(d, exist_ok=True)
        h = hashlib.md5(json.dumps(key, sort_keys=True).encode()).hexdigest()[:12]
        path = os.path.join(d, h + ".json")
        json.dump({"property": self.pid, "key": key, "what": what, "replay": replay_obj}, open(path, "w"), indent=1)
        if len(self.violations) < 200: self.violations.append({"key": key, "what": what, "replay": path})
        return True

    def finish(self, coverage_extra=None):
        wall = time.time() - self.t0
        states = sum(p.get("states", 0) for p in self.phases); trans = sum(p.get("transitions", 0) for p in self.phases)
        obl = sum(p.get("obligations", 0) for p in self.phases); dis = sum(p.get("discharged", 0) for p in self.phases)
        cov = {"states": max(states, 1), "transitions": max(trans, 1), "traces_validated_against_impl": sum(p.get("validated", 0) for p in self.phases),
               "samples": self.samples[:6] or [{"note": "no sample recorded"}], "obligations": obl, "discharged": dis,
               "inconclusive": len(self.inconclusive), "inconclusive_list": self.inconclusive[:20],
               "exhaustive": all(p.get("exhaustive", False) for p in self.phases) if self.phases else False,
               "solver_seconds": round(sum(p.get("solver_seconds", 0) for p in self.phases), 2),
               "queries": sum(p.get("queries", 0) for p in self.phases),
               "phases": [{k: v for k, v in p.items() if not k.startswith("_")} for p in self.phases], "trusted_base": self.trusted,
               "known_findings_hit": [h["finding"].get("what") for h in self.known_hits],
               "violation_list": [{"key": v["key"], "what": v["what"]} for v in self.violations[:10]]}
        ncases = sum(p.get("cases", 0) or len(p.get("harnesses", [])) or 1 for p in self.phases)
        cov["evaluations"] = max(states, 1); cov["distinct_nontrivial"] = max(ncases, 0)
        cov["rule"] = "evaluations = symbolic paths / CBMC properties explored; distinct_nontrivial = distinct enumerated integer cases (E2) or harnesses (E1), each of which carries at least one solver-decided obligation"
        cov["explanation"] = "Solver-based bounded checking of the real code: " + "; ".join("%s: %s" % (p.get("phase"), p.get("bounds", "")) for p in self.phases)[:3000]
        if coverage_extra: cov.update(coverage_extra)
        ev = {"property_id": self.pid, "tier": self.tier, "seed": self.seed, "level": self.level, "coverage": cov,
              "assumptions": self.assumptions, "wall_s": round(wall, 2), "violations": len(self.violations)}
        os.makedirs(os.path.join(OUT, "evidence"), exist_ok=True)
        json.dump(ev, open(os.path.join(OUT, "evidence", self.pid + ".json"), "w"), indent=1)
        for h in self.known_hits:
            print("KNOWN-FINDING: property=%s %s" % (self.pid, h["finding"].get("what")))
        for v in self.violations[:20]:
            print("VIOLATION property=%s replay=%s" % (self.pid, v["replay"]))
            print("  " + v["what"][:400])
        print("%s %s: phases=%d states=%d obligations=%d discharged=%d inconclusive=%d violations=%d known=%d wall=%.1fs" %
              (self.pid, self.tier, len(self.phases), states, obl, dis, len(self.inconclusive), len(self.violations), len(self.known_hits), wall))
        sys.stdout.flush()
        return 1 if self.violations else 0
