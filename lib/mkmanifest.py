#!/usr/bin/env python3
"""Regenerate MANIFEST.json from the registry of checks (single source of truth: this file)."""
import json, os, sys
V = os.path.dirname(os.path.dirname(os.path.abspath(__file__)))
props = [json.loads(l) for l in open(V + "/properties.jsonl")]
E2 = "E2 slusym: bounded symbolic execution of clang-14 LLVM IR of the real sources (FP ops rewritten to Z3 Real terms, integer control concrete, DFS over solver-decided FP branches); Z3 decides every branch feasibility and obligation, cvc5 re-checks unknowns; counterexamples replayed natively"
E1 = "E1 cbmc-unit: CBMC 6.11 bounded model checking (goto-cc build of the real translation units, CaDiCaL) with unwinding assertions"
CLAIMS = {
 "C01": dict(engine="E2", text="For every enumerated case (pattern n<=3, storage, ordering, tuning, nrhs/ldb; reach cases n<=10 with symbolic right-hand sides / trailing columns) the solver shows A*X=B holds exactly (layer X) on every feasible info=0 path of the real ?gssv call tree, for all values of the symbolic entries; padding rows untouched.", design="7 C01", tech="bounded symbolic execution of LLVM IR + SMT (Z3 QF_NRA, cvc5 cross-check)"),
 "C02": dict(engine="E2", text="On every feasible info=0 path of sp_preorder+?gstrf (all 2x2, selected/all 3x3 patterns, tall 3x2/2x1, reach cases n<=10) the solver proves Pr*A*Pc=L*U entrywise, U diagonal nonzero, |candidate|*u<=|pivot| and diagonal preference, for all symbolic values and symbolic u in (0,1].", design="7 C02", tech="bounded symbolic execution of LLVM IR + SMT"),
 "C03": dict(engine="E2", text="Every clause of the supernodal/column-compressed structure invariant is checked on every solver-feasible pivot path of the enumerated cases (the solver decides which structures can arise for some values).", design="7 C03", tech="bounded symbolic execution of LLVM IR + SMT (path feasibility), structural validator on each path"),
 "C04": dict(engine="E2", text="For all 512 3x3 patterns (structurally singular ones included) and smaller, on every feasible path: info=i>0 implies every candidate of column i is entailed zero (minor determinants) and the leading block is factored; info=0 implies U diagonal entailed nonzero; structurally singular patterns have no feasible info=0 path; drivers leave B untouched.", design="7 C04", tech="bounded symbolic execution of LLVM IR + SMT (entailment queries)"),
 "C05": dict(engine="E2", text="Expert driver on symbolic systems n<=3 (+ reach cases): op(A)X=B for the caller's original A,B under every Trans x storage x Equil; A and B on exit equal the documented scaling (entrywise, by the solver); all four equed outcomes arise as branches.", design="7 C05", tech="bounded symbolic execution of LLVM IR + SMT"),
 "C06": dict(engine="E2", text="Histories of 2-3 expert-driver calls (DOFACT/SamePattern/SamePattern_SameRowPerm/FACTORED) with fresh symbolic values per refactor step: each step's factors, structure and solution satisfy the fresh-factorization oracles; FACTORED steps leave factors term-identical.", design="7 C06", tech="bounded symbolic execution of LLVM IR + SMT over call histories"),
}
checks = []
for pid, c in CLAIMS.items():
    checks.append({"property_id": pid, "quick_cmd": "./bin/check %s --tier quick" % pid, "thorough_cmd": "./bin/check %s --tier thorough" % pid,
                   "evidence_file": "evidence/%s.json" % pid, "replay_cmd_template": "./bin/check %s --replay {path}" % pid, "engine": c["engine"],
                   "level_claimed": {"category": c.get("cat", "model_checking"), "text": c["text"], "design_ref": "DESIGN.md section " + c["design"]},
                   "level_note": c.get("note", "Bounded: holds for the enumerated integer cases and all values of the symbolic floating-point inputs in exact real arithmetic (layer X); rounding/overflow outside; trusted: clang -O1 lowering (validated by native replay of sampled path models), slusym-instr+runtime, Z3/cvc5, Higham backward-error theorem for the step to the c*n*eps bound."),
                   "technique": c["tech"]})
claimed = set(CLAIMS)
na = [{"property_id": p["id"], "reason": "check under construction in this session (no claim yet)"} for p in props if p["id"] not in claimed]
m = {"version": 1,
     "setup_cmd": "python3 lib/setup.py",
     "hooks": {"guard": "XIAOYELI_SUPERLU_VERIF", "enable": "no source hook is needed: E2 instruments the LLVM IR, E1 cuts at goto level; -DXIAOYELI_SUPERLU_VERIF is reserved", "baseline_off_cmd": "cmake -G Ninja -S /repo -B /repo/_build -DCMAKE_BUILD_TYPE=RelWithDebInfo && cmake --build /repo/_build && ctest --test-dir /repo/_build -j8 --timeout 900", "source_commits": [], "add_only": True},
     "engines": [{"name": "E2 slusym", "path": "slusym/ lib/e2.py lib/e2phase.py harness/e2/", "serves_properties": sorted(k for k, v in CLAIMS.items() if v["engine"] == "E2"), "kind_free_text": E2},
                 {"name": "E1 cbmc-unit", "path": "lib/e1.py harness/e1/", "serves_properties": sorted(k for k, v in CLAIMS.items() if v["engine"] == "E1"), "kind_free_text": E1}],
     "checks": checks, "notes": "see DESIGN.md; known findings in known_findings.json", "not_applicable": na}
json.dump(m, open(V + "/MANIFEST.json", "w"), indent=1)
print("claimed", sorted(claimed), "not claimed", [x["property_id"] for x in na])
