"""E1 driver: CBMC unit harnesses on goto-cc builds of /repo's translation units."""
import os, re, sys, json, time, subprocess, hashlib
from concurrent.futures import ThreadPoolExecutor

VERIF = os.path.dirname(os.path.dirname(os.path.abspath(__file__)))
REPO = os.environ.get("SLU_REPO", "/repo")
NPROC = int(os.environ.get("VERIF_JOBS", "16"))
LIBC_KEEP = {"strncmp", "strcmp", "memcmp", "memset", "memcpy", "memmove", "strlen", "strcpy", "strncpy", "printf", "fprintf", "sprintf", "snprintf", "exit", "abort", "malloc", "free",
             "calloc", "realloc", "fflush", "puts", "putchar", "fputs", "fabs", "fabsf", "sqrt", "sqrtf", "floor", "ceil", "log", "exp", "pow", "atoi", "atof", "strtol", "strtod", "toupper", "tolower",
             "isdigit", "isspace", "fgets", "fscanf", "sscanf", "fopen", "fclose", "getc", "ungetc", "fgetc", "feof", "rewind", "strchr", "strrchr", "strstr", "strtok", "time", "clock", "times",
             "sysconf", "perror", "fputc", "fwrite", "fread", "scanf", "assert", "__assert_fail", "copysign", "isnan", "isinf"}
BASE_FLAGS = ["--sat-solver", "cadical", "--unwinding-assertions", "--drop-unused-functions", "--no-malloc-may-fail", "--bounds-check", "--pointer-check", "--signed-overflow-check",
              "--undefined-shift-check", "--div-by-zero-check"]


def sh(cmd, timeout=None, **kw):
    try:
        r = subprocess.run(cmd, stdout=subprocess.PIPE, stderr=subprocess.STDOUT, text=True, timeout=timeout, errors="replace", **kw)
        return r.returncode, r.stdout
    except subprocess.TimeoutExpired as e:
        return -999, (e.stdout or "") if isinstance(e.stdout, str) else ""


def goto_build(wd, name, sources, defs=(), incs=()):
    os.makedirs(wd, exist_ok=True)
    out = os.path.join(wd, name + ".goto")
    cmd = ["goto-cc", "-I" + REPO + "/SRC", "-I" + VERIF + "/harness/e1", "-I" + VERIF + "/harness/compat", "-DNDEBUG", "-DPRNTlevel=0", "-DDEBUGlevel=0", "-D__CPROVER"] + ["-I" + i for i in incs] + list(defs) + ["-o", out] + list(sources)
    rc, o = sh(cmd, timeout=600)
    if rc != 0: raise RuntimeError("goto-cc failed: %s\n%s" % (" ".join(cmd), o[-3000:]))
    return out


def undefined_functions(goto):
    rc, o = sh(["goto-instrument", "--list-undefined-functions", goto], timeout=300)
    names = []
    for l in o.splitlines():
        l = l.strip()
        if not l or " " in l or l.startswith("Reading") or l.startswith("__CPROVER") or l.startswith("nondet_") or l.startswith("__builtin") or l.startswith("__VERIFIER"): continue
        names.append(l)
    return names


def cut(goto, out, assert_false=(), assume_false=(), remove_first=()):
    """give body-less (or body-removed) functions assert(false) / assume(false) bodies at goto level"""
    cur = goto
    for i, f in enumerate(remove_first):
        nxt = out + ".rm%d" % i
        rc, o = sh(["goto-instrument", "--remove-function-body", f, cur, nxt], timeout=300)
        if rc != 0: raise RuntimeError("remove-function-body %s failed: %s" % (f, o[-1000:]))
        cur = nxt
    for kind, names in (("assert-false-assume-false", assert_false), ("assume-false", assume_false)):
        if not names: continue
        nxt = out + "." + kind
        rx = "^(" + "|".join(re.escape(n) for n in names) + ")$"
        rc, o = sh(["goto-instrument", "--generate-function-body", rx, "--generate-function-body-options", kind, cur, nxt], timeout=300)
        if rc != 0: raise RuntimeError("generate-function-body failed: %s" % o[-1000:])
        cur = nxt
    os.replace(cur, out) if cur != goto else None
    return out if cur != goto else goto


RES_RE = re.compile(r"^\[(?P<id>[^\]]+)\]\s+(?:line (?P<line>\d+)\s+)?(?P<desc>.*?):\s+(?P<res>SUCCESS|FAILURE|UNKNOWN)$")


def run_cbmc(goto, function="main", unwind=None, unwindset=None, extra=(), timeout=600, trace=True, flags=None):
    cmd = ["cbmc", goto, "--function", function] + list(flags if flags is not None else BASE_FLAGS)
    if unwind is not None: cmd += ["--unwind", str(unwind)]
    if unwindset: cmd += ["--unwindset", ",".join("%s:%d" % kv for kv in unwindset.items())]
    if trace: cmd += ["--trace"]
    cmd += list(extra)
    t0 = time.time(); rc, out = sh(["/usr/bin/time", "-f", "RSS_KB=%M"] + cmd, timeout=timeout)
    res = {"cmd": " ".join(cmd), "rc": rc, "sec": round(time.time() - t0, 2), "props": 0, "failed": [], "unwinding_failed": [], "verdict": "ERROR", "vars": None, "clauses": None, "rss_kb": None, "solver_sec": None}
    if rc == -999: res["verdict"] = "TIMEOUT"; return res, out
    for l in out.splitlines():
        m = RES_RE.match(l.strip())
        if m:
            res["props"] += 1
            if m.group("res") == "FAILURE":
                d = {"id": m.group("id"), "line": m.group("line"), "desc": m.group("desc")}
                if "unwinding assertion" in m.group("desc") or ".unwind." in m.group("id"): res["unwinding_failed"].append(d)
                else: res["failed"].append(d)
        m2 = re.search(r"(\d+) variables, (\d+) clauses", l)
        if m2: res["vars"], res["clauses"] = int(m2.group(1)), int(m2.group(2))
        m3 = re.search(r"Runtime Solver: ([\d.]+)s", l)
        if m3: res["solver_sec"] = (res["solver_sec"] or 0) + float(m3.group(1))
        m4 = re.search(r"RSS_KB=(\d+)", l)
        if m4: res["rss_kb"] = int(m4.group(1))
    if "VERIFICATION SUCCESSFUL" in out: res["verdict"] = "SUCCESS"
    elif "VERIFICATION FAILED" in out: res["verdict"] = "FAILED"
    elif "PARSING ERROR" in out or "CONVERSION ERROR" in out: res["verdict"] = "ERROR"
    return res, out


def nondet_sequence(out):
    """ordered values returned by nondet_*() in a CBMC trace (for the native replay of the counterexample)"""
    seq = []
    for m in re.finditer(r"^\s*return_value_nondet_(int|uint|char|double|float|long|bool)(?:\$\d+)?=([^\s(]+)", out, re.M):
        v = m.group(2)
        if v in ("TRUE", "FALSE"): v = "1" if v == "TRUE" else "0"
        v = re.sub(r"(?<=[0-9a-fA-F.])(ul|l|u|f)$", "", v)
        if v.startswith("'") and v.endswith("'") and len(v) >= 3:
            inner = v[1:-1]; v = str(ord(inner)) if len(inner) == 1 else str(int(inner.replace("\\", ""), 8) if inner.startswith("\\") and inner[1:].isdigit() else 0)
        seq.append(v)
    return seq


def native_replay(wd, name, sources, defs, seq, incs=(), timeout=60, stubs=()):
    """compile the same harness + /repo sources natively and feed the recorded nondet values; returns (reproduced, output)"""
    exe = os.path.join(wd, name + ".replay"); vf = os.path.join(wd, name + ".vals")
    open(vf, "w").write("\n".join(seq) + "\n")
    sf = os.path.join(wd, name + "_stubs.c")
    open(sf, "w").write("#include <stdlib.h>\n#include <stdio.h>\n" + "".join("void %s(void) { printf(\"REPLAY-FAIL: cut function %s reached\\n\"); exit(1); }\n" % (f, f) for f in stubs))
    cmd = ["cc", "-O0", "-w", "-I" + REPO + "/SRC", "-I" + VERIF + "/harness/e1", "-I" + VERIF + "/harness/compat", "-DNDEBUG", "-DPRNTlevel=0", "-DDEBUGlevel=0"] + ["-I" + i for i in incs] + [d for d in defs if d != "-DWITNESS"] + ["-o", exe] + list(sources) + [sf, "-lm"]
    rc, o = sh(cmd, timeout=300)
    if rc != 0: return None, "native build failed: " + o[-800:]
    rc, o = sh([exe], timeout=timeout, env=dict(os.environ, E1_REPLAY=vf))
    return ("REPLAY-FAIL" in o) or rc in (-11, -6, 139, 134), "rc=%s %s" % (rc, o[-600:])


def trace_inputs(out, limit=60):
    """pull harness-level assignments (nondet choices) out of a CBMC trace for the replay record"""
    vals = []
    for m in re.finditer(r"^\s*([A-Za-z_][\w\.\[\]>-]*)=([^\s(]+)", out, re.M):
        if len(vals) < limit: vals.append((m.group(1), m.group(2)))
    return vals


class Harness:
    """One CBMC obligation: sources + harness + defs, with a WITNESS twin for vacuity."""

    def __init__(self, name, sources, defs=(), function="main", unwind=None, unwindset=None, assert_false=None, assume_false=(), remove=(), extra=(), timeout=600, auto_cut=True, flags=None, incs=()):
        self.__dict__.update(locals())

    def run(self, wd):
        t0 = time.time(); out = {}
        for twin in (False, True):
            nm = self.name + ("_w" if twin else "")
            g = goto_build(wd, nm, self.sources, list(self.defs) + (["-DWITNESS"] if twin else []), self.incs)
            af = list(self.assert_false or [])
            if self.auto_cut:
                und = [f for f in undefined_functions(g) if f not in LIBC_KEEP and f not in self.assume_false]
                af = sorted(set(af) | set(und))
            g2 = cut(g, g + ".cut", assert_false=af, assume_false=self.assume_false, remove_first=self.remove)
            uws = dict(self.unwindset or {}); adapt = []
            for attempt in range(4):   # adaptive unwinding: raise the bound of exactly the loops whose unwinding assertion failed (cap: 4 rounds, x2 each)
                res, txt = run_cbmc(g2, self.function, self.unwind, uws, self.extra, self.timeout, trace=not twin, flags=self.flags)
                if twin or res["verdict"] != "FAILED" or not res["unwinding_failed"] or res["failed"]: break
                for uf in res["unwinding_failed"]:
                    m_ = re.match(r"(.+)\.unwind\.(\d+)$", uf["id"])
                    if m_: lp = "%s.%s" % (m_.group(1), m_.group(2)); uws[lp] = 2 * uws.get(lp, self.unwind or 2) + 1; adapt.append(lp)
            res["final_unwindset"] = uws; res["adapted_loops"] = adapt
            res["cuts_assert_false"] = af; res["cuts_assume_false"] = list(self.assume_false)
            if not twin:
                res["trace_inputs"] = trace_inputs(txt) if res["verdict"] == "FAILED" else []; res["tail"] = txt[-1500:] if res["verdict"] in ("ERROR",) else ""
                if res["verdict"] == "FAILED" and res["failed"]:
                    seq = nondet_sequence(txt); rep, rout = native_replay(wd, nm, self.sources, list(self.defs), seq, self.incs, stubs=af)
                    res["native_replay"] = {"reproduced": rep, "output": rout, "values": seq[:80]}
            out["witness" if twin else "main"] = res
            for f in (g, g2):
                try: os.remove(f)
                except OSError: pass
        m, w = out["main"], out["witness"]
        wit_ok = w["verdict"] == "FAILED" and any("WITNESS" in f["desc"] for f in w["failed"])
        out["witness_reachable"] = wit_ok
        out["wall"] = round(time.time() - t0, 1)
        return out


def run_harnesses(chk, harnesses, phase_name, bounds, violation_filter=None, unwinding_is_violation=False):
    """run a list of Harness objects in parallel, register results on the Check"""
    wd = os.path.join(chk.scratch, "e1_" + re.sub(r"\W", "_", phase_name)); os.makedirs(wd, exist_ok=True)
    with ThreadPoolExecutor(NPROC) as ex: results = list(ex.map(lambda h: (h, h.run(os.path.join(wd, h.name))), harnesses))
    obligations = discharged = 0; props = 0; solver = 0.0; samples = []
    for h, r in results:
        m = r["main"]; obligations += 1; props += m["props"]; solver += m.get("solver_sec") or 0
        ok = m["verdict"] == "SUCCESS" and r["witness_reachable"]
        if ok: discharged += 1
        elif m["verdict"] == "FAILED":
            real = [f for f in m["failed"] if not violation_filter or violation_filter(h, f)]
            for f in real[:5]:
                key = {"engine": "E1", "harness": h.name, "assert_id": f["desc"][:80], "site": f["id"]}
                nr = m.get("native_replay") or {}
                chk.violation(key, "CBMC counterexample in %s: %s (%s line %s); native replay of the recorded nondet values: %s [%s]; nondet values %s" % (h.name, f["desc"], f["id"], f["line"],
                              {True: "REPRODUCED", False: "not reproduced", None: "not run"}[nr.get("reproduced")], (nr.get("output") or "")[-200:].replace("\n", " | "), (nr.get("values") or [])[:30]),
                              {"harness": h.name, "cmd": m["cmd"], "sources": h.sources, "defs": list(h.defs), "failed": f, "nondet_values": nr.get("values"), "native_replay": nr})
            if m["unwinding_failed"]:
                msg = "%s: unwinding assertion failed at the derived cap: %s" % (h.name, m["unwinding_failed"][:2])
                if unwinding_is_violation: chk.violation({"engine": "E1", "harness": h.name, "assert_id": "unwinding", "site": m["unwinding_failed"][0]["id"]}, msg, {"harness": h.name, "cmd": m["cmd"]})
                else: chk.inconclusive.append(msg)
            if not real and not m["unwinding_failed"]: chk.inconclusive.append("%s: only filtered (non-property) CBMC failures: %s" % (h.name, [f["desc"][:60] for f in m["failed"][:3]]))
        else: chk.inconclusive.append("%s: CBMC verdict %s after %ss %s" % (h.name, m["verdict"], m["sec"], m.get("tail", "")[-300:]))
        if m["verdict"] == "SUCCESS" and not r["witness_reachable"]: chk.inconclusive.append("%s: WITNESS twin not reachable (vacuous harness) verdict=%s" % (h.name, r["witness"]["verdict"]))
        samples.append({"harness": h.name, "verdict": m["verdict"], "cbmc_properties": m["props"], "sat_vars": m["vars"], "sat_clauses": m["clauses"], "sec": m["sec"], "rss_kb": m["rss_kb"], "witness_reachable": r["witness_reachable"],
                        "unwind": h.unwind, "unwindset": h.unwindset, "cuts": (m.get("cuts_assert_false") or [])[:12]})
    ph = {"phase": phase_name, "engine": "E1/cbmc-6.11 cadical", "bounds": bounds, "states": max(props, 1), "transitions": max(props, 1), "obligations": obligations, "discharged": discharged, "cbmc_properties_checked": props,
          "solver_seconds": round(solver, 2), "queries": obligations, "exhaustive": discharged == obligations, "harnesses": samples, "validated": 0,
          "functions_encoded_from": sorted({os.path.basename(s) for h in harnesses for s in h.sources if s.startswith(REPO)})}
    chk.phases.append(ph)
    for s in samples[:2]: chk.samples.append({"phase": phase_name, **s})
    return results
