#!/usr/bin/env python3
"""Write seeded/<id>/meta.json for every seeded change from the seeding agent's own description (meta_agent.json), my independent verification (verified.txt)
and the detection logs (detect*.txt); print the DESIGN.md table."""
import os, json, glob, re
V = os.path.dirname(os.path.dirname(os.path.abspath(__file__)))
rows = []
for d in sorted(glob.glob(V + "/seeded/C*")):
    sid = os.path.basename(d); ma = {}
    if os.path.exists(d + "/meta_agent.json"):
        try: ma = json.load(open(d + "/meta_agent.json"))
        except Exception: ma = {}
    ver = open(d + "/verified.txt").read() if os.path.exists(d + "/verified.txt") else ""
    det = {}
    for f in sorted(glob.glob(d + "/detect*.txt")):
        first = open(f).read().splitlines()
        if not first: continue
        m = re.match(r"\S+: check (C\d+) (?:--tier (\w+) )?exit=(\d+) violations=(\d+) time=(\d+)s", first[0])
        if m: det[m.group(1)] = {"tier": m.group(2) or "quick", "exit": int(m.group(3)), "violation_lines": int(m.group(4)), "seconds": int(m.group(5)), "first_violation": (first[2].strip()[:300] if len(first) > 2 else "")}
    prop = sid[:3]
    caught = sorted(k for k, v in det.items() if v["exit"] == 1 and v["violation_lines"] > 0)
    meta = {"id": sid, "breaks_property": prop, "files_changed": ma.get("files_changed"), "what": ma.get("what"), "needs_to_manifest": ma.get("needs"),
            "independently_verified": "VERIFIED" in ver.splitlines()[-1:] and True or ("VERIFIED" in ver and "NOT VERIFIED" not in ver),
            "what_i_ran": "lib/verify_seed.sh %s <agent worktree>: fresh scratch worktree of /repo, git apply patch.diff, cmake+ninja build, ctest (24 tests) with the patch, demo with the patch (must fail) and without (must pass); then lib/eval_seeds.sh %s: ./bin/check <property> --tier quick with SLU_REPO pointing at a scratch worktree carrying the patch" % (sid, sid),
            "verification_log": ver.strip().splitlines(), "detection": det, "caught_by_checks": caught}
    json.dump(meta, open(d + "/meta.json", "w"), indent=1)
    rows.append((sid, (ma.get("what") or "")[:110].replace("|", "/").replace("\n", " "), ", ".join("%s%s" % (k, "" if v["exit"] == 1 and v["violation_lines"] else " (missed)") for k, v in sorted(det.items())) or "not evaluated"))
table = "| seed | change | checks run on it (quick tier) |\n|---|---|---|\n" + "\n".join("| %s | %s | %s |" % r for r in rows) + "\n"
print(table)
# keep the table in DESIGN.md (between the markers) up to date
dp = V + "/DESIGN.md"; d = open(dp).read(); b, e = "<!-- seeded-table-begin -->", "<!-- seeded-table-end -->"
if b in d and e in d: open(dp, "w").write(d[:d.index(b) + len(b)] + "\n" + table + d[d.index(e):])
