#!/bin/bash
# eval_seeds.sh [-t tier] [-p PROP] [ids...] : for each seeded change, make a scratch worktree of /repo, apply the patch there, run the check of its
# property against that worktree (SLU_REPO) with evidence/replays redirected (VERIF_OUT), log to /verif/seeded/<id>/detect.txt, remove the worktree.
# /repo itself and /verif/evidence are never touched.
HERE=$(cd "$(dirname "$0")/.." && pwd); cd $HERE   # checks come from this tree (a vp-run snapshot or /verif); results always go to /verif/seeded
TIER=quick; PROPOVR=""
while getopts "t:p:" o; do case $o in t) TIER=$OPTARG;; p) PROPOVR=$OPTARG;; esac; done; shift $((OPTIND-1))
[ -x build/slusym-instr ] || python3 lib/setup.py >/dev/null
for d in ${@:-$(ls seeded)}; do
  P=${PROPOVR:-$(echo $d | cut -c1-3)}
  W=/tmp/se_$d; O=/tmp/se_${d}_out; rm -rf $W $O; git -C /repo worktree prune
  git -C /repo worktree add -q --detach $W HEAD || { echo "$d: worktree failed"; continue; }
  git -C $W apply $HERE/seeded/$d/patch.diff || { echo "$d: patch does not apply"; git -C /repo worktree remove --force $W; continue; }
  t0=$(date +%s)
  SLU_REPO=$W VERIF_OUT=$O timeout 3000 ./bin/check $P --tier $TIER > /tmp/seed_${d}_$P.log 2>&1; rc=$?
  nv=$(grep -c "^VIOLATION property=$P" /tmp/seed_${d}_$P.log)
  F=/verif/seeded/$d/detect.txt; [ -n "$PROPOVR" ] && F=/verif/seeded/$d/detect_$P.txt
  echo "$d: check $P --tier $TIER exit=$rc violations=$nv time=$(( $(date +%s) - t0 ))s" | tee $F
  grep -A1 "^VIOLATION" /tmp/seed_${d}_$P.log | grep -v "^--" | head -4 | cut -c1-300 | sed "s#$W#/repo#g; s#$O#/verif#g" >> $F
  git -C /repo worktree remove --force $W; rm -rf $O
done
