#!/bin/bash
# eval_seeds.sh [ids...] : apply each seeded change to /repo, run the quick check of its property, undo; log to /verif/seeded/<id>/detect.txt
cd /verif
for d in ${@:-$(ls seeded)}; do
  P=$(echo $d | cut -c1-3)
  git -C /repo checkout -- . 2>/dev/null
  git -C /repo apply /verif/seeded/$d/patch.diff || { echo "$d: patch does not apply"; continue; }
  t0=$(date +%s)
  timeout 1500 ./bin/check $P --tier quick > /tmp/seed_$d.log 2>&1; rc=$?
  git -C /repo checkout -- .
  nv=$(grep -c "^VIOLATION property=$P" /tmp/seed_$d.log)
  echo "$d: check $P exit=$rc violations=$nv time=$(( $(date +%s) - t0 ))s" | tee /verif/seeded/$d/detect.txt
  grep -A1 "^VIOLATION" /tmp/seed_$d.log | grep -v "^--" | head -4 | cut -c1-300 >> /verif/seeded/$d/detect.txt
done
git -C /repo status --short | grep -v _build
