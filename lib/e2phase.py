"""Run one E2 phase (one harness, one build variant, a list of cases) for a property check."""
import os, json, time, subprocess, hashlib
import e2

_builds = {}


def get_build(chk, prec="d", vendor=False, idx64=False, asan=False, extra_defs=(), extra_src=()):
    key = (prec, vendor, idx64, asan, tuple(extra_defs), tuple(extra_src))
    if key not in _builds:
        wd = os.path.join(chk.scratch, "b_%s%s%s%s_%d" % (prec, "v" if vendor else "", "64" if idx64 else "", "a" if asan else "", len(_builds)))
        _builds[key] = e2.Build(wd, prec, vendor=vendor, idx64=idx64, asan=asan, extra_defs=extra_defs, extra_src=extra_src).build_lib()
    return _builds[key]


def _values_file(chk, model):
    p = os.path.join(chk.scratch, "vals_%s.txt" % hashlib.md5(json.dumps(model, sort_keys=True).encode()).hexdigest()[:10])
    with open(p, "w") as f:
        for k, v in model.items(): f.write("%s %s\n" % (k, v[1]))
    return p


def concrete_run(exe, case, valfile, tol=None, timeout=120):
    of = valfile + ".out.%d" % (hash(exe) & 0xffff)
    env = dict(os.environ, SLUSYM_VALUES=valfile, SLUSYM_OUT=of, ASAN_OPTIONS="detect_leaks=0:exitcode=77")
    if tol: env["SLUSYM_TOL"] = str(tol)
    if os.path.exists(of): os.remove(of)
    try:
        r = subprocess.run([exe] + [str(a) for a in case], env=env, stdout=subprocess.PIPE, stderr=subprocess.PIPE, text=True, timeout=timeout, errors="replace")
        rc, err = r.returncode, r.stderr
    except subprocess.TimeoutExpired:
        rc, err = -999, "timeout"
    recs = []
    if os.path.exists(of):
        for l in open(of):
            try: recs.append(json.loads(l))
            except Exception: pass
        os.remove(of)
    return rc, err, recs


def run_phase(chk, name, harness, cases, id_prefixes, prec="d", vendor=False, idx64=False, asan=False, budget_s=240, qtimeout_ms=10000,
              defs=(), bounds="", env=None, key_extra=None, extra_src=(), crash_is_violation=False, event_violations=(), validate_samples=4, tol=None, note_check=None,
              monitor_ids=(), path_timeout=None, crash_filter=None, div0_functions=None):
    """id_prefixes: assertion-id prefixes that belong to the property being checked.
    monitor_ids: path-record counters ('global_stores', 'ws_viol', 'heap_errors') that are violations when non-zero."""
    t0 = time.time()
    b = get_build(chk, prec, vendor, idx64, asan, extra_src=extra_src)
    hname = os.path.splitext(os.path.basename(harness))[0] + "_" + hashlib.md5((" ".join(defs)).encode()).hexdigest()[:6]
    exe = os.path.join(b.wd, hname)
    if not os.path.exists(exe): exe = b.build_harness(harness, hname, defs)
    table = json.load(open(os.path.join(b.wd, hname + ".table.json")))
    outdir = os.path.join(chk.scratch, "out_" + name.replace(" ", "_").replace("/", "_"))
    ex = e2.Explorer(exe, outdir, qtimeout_ms=qtimeout_ms, budget_s=budget_s, env=env or {}, path_timeout=path_timeout or (90 if budget_s <= 300 else 600))
    pathlog = []
    def on_path(case, rec, sout):
        if note_check:
            msg = note_check(case, rec)
            if msg: pathlog.append((case, rec["path"], msg))
        for mid in monitor_ids:
            if rec.get(mid, 0): pathlog.append((case, rec["path"], "%s=%d" % (mid, rec[mid])))
    st = ex.explore(cases, on_path)
    mine = lambda i: any(i.startswith(p) for p in id_prefixes)
    obligations = sum(a + b_ for i, (a, b_) in st["by_id"].items() if mine(i))
    discharged = sum(a for i, (a, b_) in st["by_id"].items() if mine(i))

    # ---- violations with replay
    native = [None]
    def native_exe():
        if native[0] is None:
            try: native[0] = b.build_native(harness, hname, defs)
            except Exception as e: native[0] = ""; print("native replay build failed:", str(e)[:500])
        return native[0]
    seen = set(); nrep = 0
    for v in sorted(ex.viols, key=lambda v_: 0 if v_.get("model") else 1):
        vid = v.get("id", "")
        if not mine(vid): continue
        k = (vid, tuple(v["case"]))
        if k in seen: continue
        seen.add(k)
        model = v.get("model") or {}
        key = {"engine": "E2", "harness": os.path.basename(harness), "prec": prec, "assert_id": vid, "case": " ".join(map(str, v["case"])), "vendor": int(vendor), "idx64": int(idx64)}
        if key_extra: key.update(key_extra(v["case"]))
        confirmed = None; how = []
        if nrep < 12:
            nrep += 1
            vf = _values_file(chk, model)
            rc, err, recs = concrete_run(exe, v["case"], vf, tol)
            rep_i = any(r.get("k") in ("V", "C") and r.get("id") == vid for r in recs)
            how.append("instrumented-concrete:%s" % ("reproduced" if rep_i else "not reproduced (rc=%d)" % rc))
            rep_n = False
            ne = native_exe()
            if ne:
                rc2, err2, recs2 = concrete_run(ne, v["case"], vf, tol)
                rep_n = any(r.get("k") in ("V", "C") and r.get("id") == vid for r in recs2) or rc2 in (-11, -6, 139, 134)
                how.append("native:%s" % ("reproduced" if rep_n else "not reproduced (rc=%d)" % rc2))
            confirmed = rep_i or rep_n
        what = "%s on case [%s] path %s; model %s; replay %s" % (vid, key["case"], v.get("path"), json.dumps({k_: v_[0] for k_, v_ in model.items()})[:300], ", ".join(how))
        if confirmed is False:
            chk.inconclusive.append("MODEL-ONLY (counterexample did not reproduce in concrete replay): " + what)
            print("MODEL-ONLY " + what)
        else:
            chk.violation(key, what, {"harness": harness, "prec": prec, "vendor": vendor, "idx64": idx64, "defs": list(defs), "case": v["case"], "path": v.get("path"), "values": {k_: v_[1] for k_, v_ in model.items()}})
    for case, path, msg in pathlog[:50]:
        key = {"engine": "E2", "harness": os.path.basename(harness), "prec": prec, "assert_id": msg.split("=")[0], "case": " ".join(map(str, case))}
        chk.violation(key, "%s on case [%s] path %s" % (msg, key["case"], path), {"harness": harness, "prec": prec, "defs": list(defs), "case": list(case), "path": path})

    # ---- divisions whose divisor can be exactly zero on a feasible path (solver model), inside the named library functions: replayed concretely (the instrumented
    #      binary in concrete mode reports a division of a finite value by an exact zero together with the block it happens in)
    if div0_functions:
        import re as _re
        fn_of = {r_["id"]: r_["function"] for r_ in table.get("reach", [])}; seen_d = set(); nrep_d = 0
        for d_ in sorted(ex.divs, key=lambda x: 0 if x.get("model") else 1):
            fn = fn_of.get(d_.get("block"), "?")
            if not _re.match(div0_functions, fn): continue
            kd = (fn, tuple(d_["case"]))
            if kd in seen_d: continue
            seen_d.add(kd); obligations += 1
            model = d_.get("model") or {}; how = "not replayed"; rep = None
            if nrep_d < 8:
                nrep_d += 1; vf = _values_file(chk, model); rc, err, recs = concrete_run(exe, d_["case"], vf, tol)
                rep = any(r_.get("k") == "E" and str(r_.get("ev", "")).startswith("div-by-zero") and fn_of.get(r_.get("block")) == fn for r_ in recs)
                how = "instrumented-concrete:%s" % ("reproduced" if rep else "not reproduced (rc=%d)" % rc)
            what = "division by a value that is exactly zero in %s on case [%s] path %s; model %s; replay %s" % (fn, " ".join(map(str, d_["case"])), d_.get("path"), json.dumps({k_: v_[0] for k_, v_ in model.items()})[:300], how)
            if rep is False: chk.inconclusive.append("MODEL-ONLY (did not reproduce in concrete replay): " + what); print("MODEL-ONLY " + what)
            else:
                key = {"engine": "E2", "harness": os.path.basename(harness), "prec": prec, "assert_id": "div-by-zero:" + fn, "case": " ".join(map(str, d_["case"]))}
                if key_extra: key.update(key_extra(d_["case"]))
                chk.violation(key, what, {"harness": harness, "prec": prec, "vendor": vendor, "idx64": idx64, "defs": list(defs), "case": d_["case"], "path": d_.get("path"), "values": {k_: v_[1] for k_, v_ in model.items()}})

    # ---- inconclusive obligations: second solver
    myunk = [u for u in ex.unks if mine(u.get("id", ""))]
    rechecked = e2.cvc5_recheck(myunk[:48], timeout=max(20, qtimeout_ms // 1000 * 2)) if myunk else []
    extra_dis = 0
    for u, verdict in rechecked:
        if verdict == "unsat": extra_dis += 1
        else: chk.inconclusive.append("obligation %s case %s path %s: z3 unknown, cvc5 %s" % (u.get("id"), u.get("case"), u.get("path"), verdict))
    for u in myunk[48:]: chk.inconclusive.append("obligation %s case %s: z3 unknown (not rechecked)" % (u.get("id"), u.get("case")))
    discharged = min(obligations, discharged + extra_dis)

    # ---- crashes / events
    if st["crashes"]:
        for c in ex.crashlog:
            if "rc" not in c: continue
            msg = "crash rc=%s on case %s prefix '%s': %s" % (c["rc"], c["case"], c["prefix"], c["stderr"][-600:].replace("\n", " | "))
            if crash_is_violation and (crash_filter is None or crash_filter(c["case"])):
                site = ""
                for ln in c["stderr"].splitlines():
                    if ln.strip().startswith("#") and e2.REPO + "/" in ln: site = ln.split(e2.REPO + "/")[-1].split(":")[0]; break
                chk.violation({"engine": "E2", "harness": os.path.basename(harness), "prec": prec, "assert_id": "crash", "site": site, "case": " ".join(map(str, c["case"]))}, msg,
                              {"harness": harness, "prec": prec, "defs": list(defs), "case": c["case"], "path": c["prefix"], "asan": asan})
            else: chk.inconclusive.append(msg[:400])
    if st["timeouts"]: chk.inconclusive.append("%d path(s) hit the per-path timeout in phase %s" % (st["timeouts"], name))
    if st["pending"]: chk.inconclusive.append("%d fork(s) left unexplored when the phase budget (%ds) ran out in phase %s" % (st["pending"], budget_s, name))
    for ev in event_violations:
        if st["events"].get(ev):
            first = next((c for c in ex.crashlog if c.get("event", {}).get("ev", "").startswith(ev[:6])), None)
            chk.violation({"engine": "E2", "harness": os.path.basename(harness), "prec": prec, "assert_id": "event:" + ev}, "event %s on %d path(s), first: %s" % (ev, st["events"][ev], json.dumps(first)[:400]), {"harness": harness, "first": first})

    # ---- validate sample paths against the natively compiled implementation (translator/encoding validation)
    validated = 0; vfail = []
    if validate_samples and ex.samples:
        ne = native_exe()
        for s in ex.samples[:validate_samples]:
            of = os.path.join(outdir, "m.jsonl")
            if os.path.exists(of): os.remove(of)
            env2 = dict(os.environ, SLUSYM_DECISIONS=s["path"], SLUSYM_OUT=of, SLUSYM_EMIT_MODEL="1", SLUSYM_QTIMEOUT_MS=str(qtimeout_ms))
            if env: env2.update(env)
            try: subprocess.run([exe] + [str(a) for a in s["case"]], env=env2, stdout=subprocess.PIPE, stderr=subprocess.PIPE, timeout=120)
            except subprocess.TimeoutExpired: continue
            prec_ = [json.loads(l) for l in open(of)] if os.path.exists(of) else []
            P = next((r for r in prec_ if r.get("k") == "P"), None)
            if not P or "model" not in P or not ne: continue
            vf = _values_file(chk, P["model"])
            rc, err, recs = concrete_run(ne, s["case"], vf, tol)
            NP = next((r for r in recs if r.get("k") == "P"), None)
            if NP and NP.get("notes", {}).get("info") == P.get("notes", {}).get("info") and NP.get("viol", 0) == 0: validated += 1
            else: vfail.append({"case": s["case"], "path": s["path"], "sym_notes": P.get("notes"), "native": (NP or {}).get("notes"), "native_viol": (NP or {}).get("viol"), "rc": rc})
    reach_total = len(table.get("reach", [])); reached = len(ex.reach)
    ph = {"phase": name, "engine": "E2/slusym", "harness": os.path.basename(harness), "precision": prec, "vendor_blas": vendor, "index64": idx64, "sanitizers": "asan+ubsan" if asan else "none",
          "bounds": bounds, "cases": st["cases"], "states": st["paths"], "transitions": st["decisions"], "infeasible_prefixes": st["infeasible"], "paths_outside_claim": st["outside"], "paths_aborted": st["aborted"],
          "obligations": obligations, "discharged": discharged, "queries": st["queries"], "q_unsat": st["q_unsat"], "q_sat": st["q_sat"], "q_unknown": st["q_unk"], "solver_seconds": round(st["qsec"], 2),
          "longest_path_condition": st["maxpc"], "events": st["events"], "crashes": st["crashes"], "exhaustive": st["pending"] == 0 and st["timeouts"] == 0,
          "functions_encoded": len(table.get("functions", [])), "functions_sample": table.get("functions", [])[:12], "fp_ops_rewritten": table.get("rewritten"), "selects_merged": table.get("select_merged"),
          "reach_blocks_total": reach_total, "reach_blocks_hit": reached, "validated": validated, "validation_failures": vfail[:3], "wall_s": round(time.time() - t0, 1),
          "heaviest_cases": [{"case": list(c_), "paths": ex.case_paths.get(c_, 0), "cpu_s": round(t_, 1)} for c_, t_ in sorted(ex.case_sec.items(), key=lambda kv: -kv[1])[:5]],
          "by_id": {i: v for i, v in st["by_id"].items() if mine(i)}, "notes_sum": st["notes_sum"], "fp_layer": "X (exact reals) + T (term identity)"}
    chk.phases.append(ph)
    for s in ex.samples[:2]: chk.samples.append({"phase": name, **s})
    if vfail: chk.inconclusive.append("encoding validation: %d sampled path model(s) did not reproduce natively in phase %s: %s" % (len(vfail), name, json.dumps(vfail[0])[:300]))
    ph["_reach"] = sorted(ex.reach); ph["_reach_sym"] = sorted(ex.reach_sym); ph["_table"] = table
    return ph, ex
