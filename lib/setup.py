#!/usr/bin/env python3
"""setup_cmd: build slusym-instr and the runtime object offline; sanity-check the tool chain."""
import sys, os, subprocess
sys.path.insert(0, os.path.dirname(os.path.abspath(__file__)))
import e2
e2.ensure_tools()
for t in ("cbmc", "goto-cc", "goto-instrument", "z3", "cvc5", "clang-14", "llvm-link-14"):
    r = subprocess.run(["which", t], stdout=subprocess.PIPE)
    if r.returncode != 0: print("missing tool", t); sys.exit(1)
print("setup ok:", e2.INSTR, e2.RTOBJ)
